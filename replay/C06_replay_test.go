package xmpp

// Replay / bounded contract-execution sweep for C06 (injected with go test -overlay): small route tables over the
// built-in matchers against a reference "first route whose matchers all accept" evaluator, with a recording Sender.

import (
	"context"
	"fmt"
	"strings"
	"testing"

	"gosrc.io/xmpp/stanza"
)

type c06sender struct {
	sent []stanza.Packet
	raw  []string
}

func (s *c06sender) Send(p stanza.Packet) error { s.sent = append(s.sent, p); return nil }
func (s *c06sender) SendIQ(_ context.Context, iq *stanza.IQ) (chan stanza.IQ, error) {
	return nil, nil
}
func (s *c06sender) SendRaw(x string) error { s.raw = append(s.raw, x); return nil }

type c06spec struct {
	kind string // "name", "type", "ns"
	vals []string
}

func c06refAccept(m c06spec, p stanza.Packet) bool {
	switch m.kind {
	case "name":
		name := ""
		switch p.(type) {
		case stanza.Message:
			name = "message"
		case *stanza.IQ:
			name = "iq"
		case stanza.Presence:
			name = "presence"
		}
		return name == strings.ToLower(m.vals[0])
	case "type":
		var t string
		switch x := p.(type) {
		case *stanza.IQ:
			t = string(x.Type)
		case stanza.Presence:
			t = string(x.Type)
		case stanza.Message:
			t = string(x.Type)
			if t == "" {
				t = "normal"
			}
		default:
			return false
		}
		for _, v := range m.vals {
			if strings.ToLower(v) == t {
				return true
			}
		}
		return false
	case "ns":
		iq, ok := p.(*stanza.IQ)
		if !ok || iq.Payload == nil {
			return false
		}
		for _, v := range m.vals {
			if strings.ToLower(v) == iq.Payload.Namespace() {
				return true
			}
		}
		return false
	}
	return false
}

func TestVerifReplay_C06(t *testing.T) {
	cases, fails := 0, 0
	report := func(f string, a ...interface{}) {
		fails++
		if fails <= 6 {
			fmt.Printf("REPLAY-FAIL: "+f+"\n", a...)
		}
	}
	matcherSets := [][]c06spec{
		{},
		{{"name", []string{"message"}}},
		{{"name", []string{"IQ"}}},
		{{"name", []string{"presence"}}},
		{{"type", []string{"get"}}},
		{{"type", []string{"normal", "chat"}}},
		{{"type", []string{"result", "error"}}},
		{{"ns", []string{stanza.NSDiscoInfo}}},
		{{"name", []string{"iq"}}, {"type", []string{"get"}}, {"ns", []string{"jabber:iq:version"}}},
		{{"name", []string{"iq"}}, {"type", []string{"set"}}},
	}
	mkIQ := func(typ stanza.StanzaType, withPayload int) *stanza.IQ {
		iq := &stanza.IQ{Attrs: stanza.Attrs{Type: typ, Id: "id-" + string(typ), From: "from@x/r", To: "to@y"}}
		switch withPayload {
		case 1:
			iq.Payload = &stanza.DiscoInfo{}
		case 2:
			iq.Payload = &stanza.Version{}
		}
		return iq
	}
	packets := func() []stanza.Packet {
		return []stanza.Packet{
			stanza.Message{Attrs: stanza.Attrs{Id: "m1"}},
			stanza.Message{Attrs: stanza.Attrs{Type: "chat", Id: "m2"}},
			stanza.Presence{Attrs: stanza.Attrs{Type: "unavailable"}},
			stanza.Presence{},
			mkIQ("get", 0), mkIQ("get", 1), mkIQ("get", 2), mkIQ("set", 1), mkIQ("set", 0), mkIQ("result", 1), mkIQ("error", 0),
			stanza.SMRequest{}, stanza.StreamFeatures{},
		}
	}
	npk := len(packets())
	n := len(matcherSets)
	// all route tables of 1..2 routes, plus a selection of 3-route tables
	var tables [][]int
	for a := 0; a < n; a++ {
		tables = append(tables, []int{a})
		for b := 0; b < n; b++ {
			tables = append(tables, []int{a, b})
		}
	}
	tables = append(tables, []int{8, 0, 2}, []int{2, 8, 0}, []int{4, 9, 1}, []int{}, []int{7, 7, 0})
	for _, tb := range tables {
		for pi := 0; pi < npk; pi++ {
			cases++
			p := packets()[pi]
			r := NewRouter()
			called := -1
			calls := 0
			for ri, ms := range tb {
				ri := ri
				route := r.NewRoute().HandlerFunc(func(s Sender, pk stanza.Packet) { called = ri; calls++ })
				for _, m := range matcherSets[ms] {
					switch m.kind {
					case "name":
						route.Packet(m.vals[0])
					case "type":
						route.StanzaType(append([]string{}, m.vals...)...)
					case "ns":
						route.IQNamespaces(append([]string{}, m.vals...)...)
					}
				}
			}
			want := -1
			for ri, ms := range tb {
				ok := true
				for _, m := range matcherSets[ms] {
					if !c06refAccept(m, p) {
						ok = false
					}
				}
				if ok {
					want = ri
					break
				}
			}
			var origID, origFrom, origTo string
			var origType stanza.StanzaType
			if iq, ok := p.(*stanza.IQ); ok {
				origID, origFrom, origTo, origType = iq.Id, iq.From, iq.To, iq.Type
			}
			snd := &c06sender{}
			func() {
				defer func() {
					if e := recover(); e != nil {
						report("table %v packet #%d (%T): panic %v", tb, pi, p, e)
					}
				}()
				r.route(snd, p)
			}()
			desc := fmt.Sprintf("table %v packet #%d (%T)", tb, pi, p)
			if want >= 0 {
				if calls != 1 || called != want {
					report("%s: handler of route %d ran %d time(s) (last %d), reference: route %d once", desc, called, calls, called, want)
				}
				if len(snd.sent)+len(snd.raw) != 0 {
					report("%s: a reply was sent although route %d matched", desc, want)
				}
				continue
			}
			if calls != 0 {
				report("%s: handler ran although no route matches", desc)
			}
			isReq := origType == "get" || origType == "set"
			if _, isIQ := p.(*stanza.IQ); isIQ && isReq {
				if len(snd.sent) != 1 || len(snd.raw) != 0 {
					report("%s: unmatched IQ request produced %d replies", desc, len(snd.sent)+len(snd.raw))
					continue
				}
				e, ok := snd.sent[0].(*stanza.IQ)
				if !ok || e.Id != origID || e.From != origTo || e.To != origFrom || e.Type != "error" || e.Error == nil || e.Error.Reason != "feature-not-implemented" {
					report("%s: wrong error reply %+v", desc, snd.sent[0])
				}
			} else if len(snd.sent)+len(snd.raw) != 0 {
				report("%s: unmatched non-request produced a reply", desc)
			}
		}
	}
	// an IQ request that carries the id of one of our own pending requests is still a request: routed or answered
	// with feature-not-implemented, never handed to the pending request
	for _, typ := range []stanza.StanzaType{stanza.IQTypeGet, stanza.IQTypeSet} {
		for _, withRoute := range []bool{false, true} {
			cases++
			router := NewRouter()
			handled := 0
			if withRoute {
				router.NewRoute().Packet("iq").HandlerFunc(func(Sender, stanza.Packet) { handled++ })
			}
			ctx, cancel := context.WithCancel(context.Background())
			pending := router.NewIQResultRoute(ctx, "same-id")
			snd := &c06sender{}
			req, _ := stanza.NewIQ(stanza.Attrs{Type: typ, Id: "same-id", From: "peer@d/r", To: "me@d/r"})
			router.route(snd, req)
			select {
			case got := <-pending:
				report("an IQ %s with the id of a pending request was delivered as its response (type %q)", typ, got.Type)
			default:
			}
			if withRoute && handled != 1 {
				report("an IQ %s with the id of a pending request: the matching route ran %d times, want 1", typ, handled)
			}
			if !withRoute && len(snd.sent) != 1 {
				report("an IQ %s with the id of a pending request and no route: %d replies, want one feature-not-implemented", typ, len(snd.sent))
			}
			cancel()
		}
	}
	fmt.Printf("REPLAY-CASES: %d\n", cases)
}
