package stanza

// Replay / bounded sweep for C02, injected into the real package by govc (go test -overlay).
// It runs the real NextPacket on the real encoding/xml decoder over generated streams: every sequence (bounded length)
// of top-level elements from a catalogue with known and unknown descendants, under several segmentations of the byte
// stream, plus every truncation and a set of single-byte corruptions of a sample stream. It checks what the contracts
// state: one packet per top-level element, in order, of the right kind and with the element's addressing attributes;
// an error for unknown names; an error (no panic, bounded number of calls) on malformed input.
// Output protocol: "REPLAY-FAIL: <input>", "REPLAY-CASES: <n>".

import (
	"encoding/xml"
	"fmt"
	"io"
	"os"
	"strings"
	"testing"
)

type c02elem struct {
	xml  string
	kind string // expected packet type, "" = error expected
	id   string
	from string
	to   string
	typ  string
}

const c02open = "<?xml version='1.0'?><stream:stream xmlns='jabber:client' xmlns:stream='http://etherx.jabber.org/streams' id='s1' version='1.0'>"
const c02openComp = "<?xml version='1.0'?><stream:stream xmlns='jabber:component:accept' xmlns:stream='http://etherx.jabber.org/streams' id='s1'>"
const c02close = "</stream:stream>"

func c02catalogue() []c02elem {
	return []c02elem{
		{`<message id='m1' from='a@b/c' to='d@e' type='chat'><body>hi</body></message>`, "stanza.Message", "m1", "a@b/c", "d@e", "chat"},
		{`<message id='m2' to='x@y'><unknown xmlns='urn:none'><message id='inner' to='evil'><body>no</body></message></unknown><body>yes</body></message>`, "stanza.Message", "m2", "", "x@y", ""},
		{`<message id='m3'><a><b><c><d><message/><body>deep</body></d></c></b></a> text </message>`, "stanza.Message", "m3", "", "", ""},
		{`<message id='m4' type='error'><error type='cancel' code='503'><service-unavailable xmlns='urn:ietf:params:xml:ns:xmpp-stanzas'/><text xmlns='urn:ietf:params:xml:ns:xmpp-stanzas'>t</text></error></message>`, "stanza.Message", "m4", "", "", "error"},
		{`<message/>`, "stanza.Message", "", "", "", ""},
		{`<message id='m5' to='a@b' from='c@d' type='chat' xmlns:from='urn:evil' xmlns:x='urn:y' x:to='zz' x:id='no' x:type='error'/>`, "stanza.Message", "m5", "c@d", "a@b", "chat"},
		{`<iq id='i5' type='get' to='a@b' xmlns:x='urn:y' x:id='no' x:type='result' x:to='zz' x:from='yy'/>`, "*stanza.IQ", "i5", "", "a@b", "get"},
		{`<presence id='p5' from='r@s/t' xmlns:x='urn:y' x:from='evil' x:type='unavailable'/>`, "stanza.Presence", "p5", "r@s/t", "", ""},
		{`<presence id='p1' from='r@s/t'><show>away</show><status>s</status><priority>3</priority></presence>`, "stanza.Presence", "p1", "r@s/t", "", ""},
		{`<presence id='p2' type='unavailable'><x xmlns='urn:none'><presence id='inner'/><show>xa</show></x></presence>`, "stanza.Presence", "p2", "", "", "unavailable"},
		{`<presence><c xmlns='http://jabber.org/protocol/caps' hash='sha-1' node='n' ver='v'/></presence>`, "stanza.Presence", "", "", "", ""},
		{`<iq id='i1' type='result' from='srv' to='me'><bind xmlns='urn:ietf:params:xml:ns:xmpp-bind'><jid>me@srv/r</jid></bind></iq>`, "*stanza.IQ", "i1", "srv", "me", "result"},
		{`<iq id='i2' type='get'><zzz xmlns='urn:none'><iq id='inner' type='set'/><error/></zzz></iq>`, "*stanza.IQ", "i2", "", "", "get"},
		{`<iq id='i3' type='error'><error type='cancel'><item-not-found xmlns='urn:ietf:params:xml:ns:xmpp-stanzas'/></error></iq>`, "*stanza.IQ", "i3", "", "", "error"},
		{`<iq id='i4' type='result'/>`, "*stanza.IQ", "i4", "", "", "result"},
		{`<stream:features><starttls xmlns='urn:ietf:params:xml:ns:xmpp-tls'><required/></starttls><mechanisms xmlns='urn:ietf:params:xml:ns:xmpp-sasl'><mechanism>PLAIN</mechanism></mechanisms><zz xmlns='urn:none'><stream:features/></zz></stream:features>`, "stanza.StreamFeatures", "", "", "", ""},
		{`<stream:error><host-unknown xmlns='urn:ietf:params:xml:ns:xmpp-streams'/><text xmlns='urn:ietf:params:xml:ns:xmpp-streams'>x</text></stream:error>`, "stanza.StreamError", "", "", "", ""},
		{`<success xmlns='urn:ietf:params:xml:ns:xmpp-sasl'/>`, "stanza.SASLSuccess", "", "", "", ""},
		{`<failure xmlns='urn:ietf:params:xml:ns:xmpp-sasl'><not-authorized/><text>no</text></failure>`, "stanza.SASLFailure", "", "", "", ""},
		{`<enabled xmlns='urn:xmpp:sm:3' id='sm1' resume='true'/>`, "stanza.SMEnabled", "", "", "", ""},
		{`<resumed xmlns='urn:xmpp:sm:3' previd='sm1' h='3'/>`, "stanza.SMResumed", "", "", "", ""},
		{`<r xmlns='urn:xmpp:sm:3'/>`, "stanza.SMRequest", "", "", "", ""},
		{`<a xmlns='urn:xmpp:sm:3' h='7'/>`, "stanza.SMAnswer", "", "", "", ""},
		{`<failed xmlns='urn:xmpp:sm:3' h='2'><unexpected-request xmlns='urn:ietf:params:xml:ns:xmpp-stanzas'/></failed>`, "stanza.SMFailed", "", "", "", ""},
		{`<failed xmlns='urn:xmpp:sm:3'><made-up-condition xmlns='urn:none'><failed/></made-up-condition></failed>`, "stanza.SMFailed", "", "", "", ""},
		{`<failed xmlns='urn:xmpp:sm:3'/>`, "stanza.SMFailed", "", "", "", ""},
	}
}

func c02unknown() []string {
	return []string{
		`<foo xmlns='urn:none'><message/></foo>`,
		`<bar/>`,
		`<stream:other/>`,
		`<abort xmlns='urn:ietf:params:xml:ns:xmpp-sasl'/>`,
		`<zz xmlns='urn:xmpp:sm:3'/>`,
	}
}

type c02chunk struct {
	r io.Reader
	n int
}

func (c *c02chunk) Read(p []byte) (int, error) {
	if len(p) > c.n {
		p = p[:c.n]
	}
	return c.r.Read(p)
}

func c02attrs(p Packet) (id, from, to, typ string, ok bool) {
	switch x := p.(type) {
	case Message:
		return x.Id, x.From, x.To, string(x.Type), true
	case Presence:
		return x.Id, x.From, x.To, string(x.Type), true
	case *IQ:
		if x == nil {
			return "", "", "", "", false
		}
		return x.Id, x.From, x.To, string(x.Type), true
	}
	return "", "", "", "", false
}

// c02run parses one stream made of the given elements and checks the packet sequence. chunk 0 = whole input at once.
func c02run(open string, elems []c02elem, sep string, chunk int) string {
	var b strings.Builder
	b.WriteString(open)
	for _, e := range elems {
		b.WriteString(sep)
		b.WriteString(e.xml)
	}
	b.WriteString(sep)
	b.WriteString(c02close)
	in := b.String()
	var r io.Reader = strings.NewReader(in)
	if chunk > 0 {
		r = &c02chunk{r, chunk}
	}
	d := xml.NewDecoder(r)
	desc := fmt.Sprintf("chunk=%d stream=%q", chunk, in)
	if _, err := InitStream(d); err != nil {
		return desc + ": InitStream: " + err.Error()
	}
	for i, e := range elems {
		pk, err := NextPacket(d)
		if e.kind == "" {
			if err == nil {
				return desc + fmt.Sprintf(": element %d (unknown name) yields packet %T instead of an error", i, pk)
			}
			return ""
		}
		if err != nil {
			return desc + fmt.Sprintf(": element %d: error %v", i, err)
		}
		if got := fmt.Sprintf("%T", pk); got != e.kind {
			return desc + fmt.Sprintf(": element %d: packet %s, want %s", i, got, e.kind)
		}
		if id, from, to, typ, ok := c02attrs(pk); ok {
			if id != e.id || from != e.from || to != e.to || typ != e.typ {
				return desc + fmt.Sprintf(": element %d: attributes id=%q from=%q to=%q type=%q, want id=%q from=%q to=%q type=%q", i, id, from, to, typ, e.id, e.from, e.to, e.typ)
			}
		}
	}
	pk, err := NextPacket(d)
	if err != nil {
		return desc + ": stream close: error " + err.Error()
	}
	if _, ok := pk.(StreamClosePacket); !ok {
		return desc + fmt.Sprintf(": after the last element: packet %T, want StreamClosePacket", pk)
	}
	return ""
}

// c02total feeds arbitrary bytes: every call returns, the number of successful calls is bounded by the input, an
// error ends the run; a panic is a failure.
func c02total(in string) (msg string) {
	defer func() {
		if r := recover(); r != nil {
			msg = fmt.Sprintf("input=%q panics: %v", in, r)
		}
	}()
	d := xml.NewDecoder(strings.NewReader(in))
	if _, err := InitStream(d); err != nil {
		return ""
	}
	for n := 0; ; n++ {
		if n > len(in)+2 {
			return fmt.Sprintf("input=%q: more packets than bytes", in)
		}
		pk, err := NextPacket(d)
		if err != nil {
			return ""
		}
		if pk == nil {
			return fmt.Sprintf("input=%q: nil packet without error", in)
		}
		if _, ok := pk.(StreamClosePacket); ok {
			return ""
		}
	}
}

func TestVerifReplay_C02(t *testing.T) {
	thorough := os.Getenv("VERIF_TIER") == "thorough"
	cat := c02catalogue()
	cases, fails := 0, 0
	report := func(m string) {
		if m != "" && fails < 5 {
			fails++
			fmt.Printf("REPLAY-FAIL: %s\n", m)
		}
	}
	try := func(open string, es []c02elem, sep string, chunk int) {
		cases++
		func() {
			defer func() {
				if r := recover(); r != nil {
					report(fmt.Sprintf("chunk=%d elems=%v panics: %v", chunk, es, r))
				}
			}()
			report(c02run(open, es, sep, chunk))
		}()
	}
	chunks := []int{0, 1, 7}
	if thorough {
		chunks = []int{0, 1, 2, 3, 5, 7, 64}
	}
	// single elements, all segmentations, with and without whitespace between elements
	for _, e := range cat {
		for _, c := range chunks {
			try(c02open, []c02elem{e}, "", c)
			try(c02open, []c02elem{e}, "\n  ", c)
			try(c02openComp, []c02elem{e}, "", c)
		}
	}
	try(c02openComp, []c02elem{{`<handshake>abc</handshake>`, "stanza.Handshake", "", "", "", ""}}, "", 0)
	try(c02openComp, []c02elem{{`<handshake/>`, "stanza.Handshake", "", "", "", ""}}, "", 1)
	// pairs (thorough: triples) of elements: what one decoder leaves behind is what the next one starts from
	for _, a := range cat {
		for _, b := range cat {
			try(c02open, []c02elem{a, b}, "", 0)
			if thorough {
				try(c02open, []c02elem{a, b}, " ", 1)
				for _, c := range cat {
					try(c02open, []c02elem{a, b, c}, "", 0)
				}
			}
		}
	}
	// unknown names: an error, also after a well-formed element
	for _, u := range c02unknown() {
		try(c02open, []c02elem{{u, "", "", "", "", ""}}, "", 0)
		try(c02open, []c02elem{cat[1], {u, "", "", "", "", ""}}, "", 1)
	}
	// truncations and corruptions of a sample stream
	sample := c02open + cat[1].xml + cat[9].xml + cat[12].xml + cat[21].xml + cat[3].xml + c02close
	for i := 0; i <= len(sample); i++ {
		cases++
		report(c02total(sample[:i]))
	}
	subst := []byte{'<', '>', '&', '\'', '/', 0, 0xff, ' '}
	step := 3
	if thorough {
		step = 1
	}
	for i := 0; i < len(sample); i += step {
		for _, s := range subst {
			bs := []byte(sample)
			bs[i] = s
			cases++
			report(c02total(string(bs)))
		}
	}
	fmt.Printf("REPLAY-CASES: %d\n", cases)
}
