package xmpp

// Replay / bounded contract-execution sweep for C11 (injected with go test -overlay): Session.resume and
// EnableStreamManagement over a scripted transport for each reply class; inspects the written request and SMState.

import (
	"encoding/xml"
	"fmt"
	"io"
	"strings"
	"testing"

	"gosrc.io/xmpp/stanza"
)

type c11transport struct {
	d       *xml.Decoder
	w       []string
	failWrite bool
}

func (t *c11transport) Connect() (string, error)     { return "", nil }
func (t *c11transport) DoesStartTLS() bool           { return false }
func (t *c11transport) StartTLS() error              { return nil }
func (t *c11transport) LogTraffic(io.Writer)         {}
func (t *c11transport) StartStream() (string, error) { return "", nil }
func (t *c11transport) GetDecoder() *xml.Decoder     { return t.d }
func (t *c11transport) IsSecure() bool               { return true }
func (t *c11transport) Ping() error                  { return nil }
func (t *c11transport) Read(p []byte) (int, error)   { return 0, io.EOF }
func (t *c11transport) Close() error                 { return nil }
func (t *c11transport) ReceivedStreamClose()         {}
func (t *c11transport) Write(p []byte) (int, error) {
	if t.failWrite {
		return 0, io.ErrClosedPipe
	}
	t.w = append(t.w, string(p))
	return len(p), nil
}

func TestVerifReplay_C11(t *testing.T) {
	cases, fails := 0, 0
	report := func(f string, a ...interface{}) {
		fails++
		if fails <= 6 {
			fmt.Printf("REPLAY-FAIL: "+f+"\n", a...)
		}
	}
	replies := []struct {
		name, xml string
		kind      string // resumed, refused, other
	}{
		{"resumed-same", "<resumed xmlns='urn:xmpp:sm:3' previd='ID' h='2'/>", "resumed"},
		{"resumed-other", "<resumed xmlns='urn:xmpp:sm:3' previd='OTHER' h='2'/>", "mismatch"},
		{"failed-item-not-found", "<failed xmlns='urn:xmpp:sm:3'><item-not-found xmlns='urn:ietf:params:xml:ns:xmpp-stanzas'/></failed>", "refused"},
		{"failed-bare", "<failed xmlns='urn:xmpp:sm:3'/>", "refused"},
		{"failed-unexpected-request", "<failed xmlns='urn:xmpp:sm:3'><unexpected-request xmlns='urn:ietf:params:xml:ns:xmpp-stanzas'/></failed>", "refused"},
		{"message", "<message xmlns='jabber:client'/>", "other"},
		{"enabled", "<enabled xmlns='urn:xmpp:sm:3' id='x'/>", "other"},
		{"eof", "", "other"},
		{"garbage", "<<", "other"},
	}
	for _, offered := range []bool{true, false} {
		for _, id := range []string{"ID", "", "a&b<"} {
			for _, inbound := range []uint{0, 7} {
				for _, rp := range replies {
					for _, failWrite := range []bool{false, true} {
						cases++
						x := strings.Replace(rp.xml, "ID", xmlEsc(id), 1)
						tr := &c11transport{d: xml.NewDecoder(strings.NewReader(x)), failWrite: failWrite}
						q := stanza.NewUnAckQueue()
						q.Push(&stanza.UnAckedStz{Stz: "<message/>"})
						s := &Session{transport: tr, BindJid: "me@x/r"}
						s.SMState = SMState{Id: id, Inbound: inbound, UnAckQueue: q}
						if offered {
							s.Features.StreamManagement.XMLName = xml.Name{Space: "urn:xmpp:sm:3", Local: "sm"}
						}
						var ok bool
						func() {
							defer func() {
								if r := recover(); r != nil {
									report("offered=%v id=%q reply=%s: panic %v", offered, id, rp.name, r)
								}
							}()
							ok = s.resume(&Config{})
						}()
						desc := fmt.Sprintf("offered=%v id=%q inbound=%d reply=%s failWrite=%v", offered, id, inbound, rp.name, failWrite)
						if !offered {
							// no stream management on this stream: nothing is asked, and the old session's state is dropped
							if ok || len(tr.w) != 0 || s.SMState.Id != "" || s.SMState.Inbound != 0 || s.SMState.UnAckQueue != nil {
								report("%s: must not ask to resume and must discard the old session's state: ok=%v writes=%d state=%+v", desc, ok, len(tr.w), s.SMState)
							}
							continue
						}
						if id == "" {
							if ok || len(tr.w) != 0 || s.SMState.Id != id || s.SMState.Inbound != inbound || s.SMState.UnAckQueue != q {
								report("%s: must not ask to resume: ok=%v writes=%d state=%+v", desc, ok, len(tr.w), s.SMState)
							}
							continue
						}
						if failWrite {
							if ok {
								report("%s: resumed although the request could not be written", desc)
							}
							continue
						}
						if len(tr.w) != 1 {
							report("%s: %d writes", desc, len(tr.w))
							continue
						}
						var req struct {
							XMLName xml.Name `xml:"urn:xmpp:sm:3 resume"`
							PrevId  string   `xml:"previd,attr"`
							H       uint     `xml:"h,attr"`
						}
						if err := xml.Unmarshal([]byte(tr.w[0]), &req); err != nil || req.PrevId != id || req.H != inbound {
							report("%s: wrote %q, want resume previd=%q h=%d", desc, tr.w[0], id, inbound)
						}
						switch rp.kind {
						case "resumed":
							if !ok || s.err != nil || s.SMState.Id != id || s.SMState.Inbound != inbound || s.SMState.UnAckQueue != q || s.BindJid != "me@x/r" {
								report("%s: confirmed resumption must keep identity, counters and held stanzas: ok=%v err=%v state=%+v", desc, ok, s.err, s.SMState)
							}
						case "refused":
							if ok || s.err != nil || s.SMState.Id != "" || s.SMState.UnAckQueue != nil || s.SMState.Inbound != 0 {
								report("%s: a refusal must drop the stale state and let a fresh bind follow: ok=%v err=%v state=%+v", desc, ok, s.err, s.SMState)
							}
						default:
							if ok || s.err == nil || s.SMState.Id != "" || s.SMState.UnAckQueue != nil {
								report("%s: must fail the connection and drop the stale state: ok=%v err=%v state=%+v", desc, ok, s.err, s.SMState)
							}
						}
					}
				}
			}
		}
	}
	// enabling
	for _, rp := range []struct {
		name, xml string
		ok        bool
		resumable bool
	}{
		{"enabled-resume", "<enabled xmlns='urn:xmpp:sm:3' id='new' resume='true'/>", true, true},
		{"enabled-resume-1", "<enabled xmlns='urn:xmpp:sm:3' id='new' resume='1'/>", true, true},
		{"enabled-noresume", "<enabled xmlns='urn:xmpp:sm:3' id='new'/>", true, false},
		{"enabled-resume-false", "<enabled xmlns='urn:xmpp:sm:3' id='new' resume='false'/>", true, false},
		{"failed", "<failed xmlns='urn:xmpp:sm:3'><unexpected-request xmlns='urn:ietf:params:xml:ns:xmpp-stanzas'/></failed>", false, false},
		{"failed-bare", "<failed xmlns='urn:xmpp:sm:3'/>", false, false},
		{"message", "<message xmlns='jabber:client'/>", false, false},
		{"eof", "", false, false},
	} {
		cases++
		tr := &c11transport{d: xml.NewDecoder(strings.NewReader(rp.xml))}
		s := &Session{transport: tr}
		s.SMState = SMState{Inbound: 9}
		s.Features.StreamManagement.XMLName = xml.Name{Space: "urn:xmpp:sm:3", Local: "sm"}
		cfg := &Config{StreamManagementEnable: true}
		func() {
			defer func() {
				if r := recover(); r != nil {
					report("enable reply=%s: panic %v", rp.name, r)
				}
			}()
			s.EnableStreamManagement(cfg)
		}()
		if rp.ok {
			if s.err != nil || s.SMState.Id != "new" || s.SMState.Inbound != 0 || s.SMState.UnAckQueue == nil || len(s.SMState.UnAckQueue.Uslice) != 0 || cfg.StreamManagementEnable != rp.resumable {
				report("enable reply=%s: err=%v state=%+v resumable=%v", rp.name, s.err, s.SMState, cfg.StreamManagementEnable)
			}
		} else if s.err == nil || s.SMState.Id != "" {
			report("enable reply=%s: err=%v state=%+v (want an error and no session id)", rp.name, s.err, s.SMState)
		}
	}
	fmt.Printf("REPLAY-CASES: %d\n", cases)
}

func xmlEsc(s string) string {
	var b strings.Builder
	xml.EscapeText(&b, []byte(s))
	return b.String()
}
