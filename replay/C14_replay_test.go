package xmpp

// Replay / bounded contract-execution sweep for C14 (injected with go test -overlay): authSASL over a scripted
// io.ReadWriter for generated users, secrets, mechanism lists and server replies; the captured <auth/> is decoded
// independently (encoding/xml + base64) and compared byte for byte.

import (
	"bytes"
	"encoding/base64"
	"encoding/xml"
	"fmt"
	"strings"
	"testing"

	"gosrc.io/xmpp/stanza"
)

type c14sock struct {
	in     *bytes.Reader
	out    bytes.Buffer
	writes int
	readBeforeWrite bool
}

func (s *c14sock) Read(p []byte) (int, error) {
	if s.writes == 0 {
		s.readBeforeWrite = true
	}
	return s.in.Read(p)
}
func (s *c14sock) Write(p []byte) (int, error) { s.writes++; return s.out.Write(p) }

func TestVerifReplay_C14(t *testing.T) {
	cases, fails := 0, 0
	report := func(f string, a ...interface{}) {
		fails++
		if fails <= 6 {
			fmt.Printf("REPLAY-FAIL: "+f+"\n", a...)
		}
	}
	users := []string{"", "user", "té<st", "a\x00b", "x&y\"'", " lead"}
	secrets := []string{"pw", "p&\x00w<", "é世", "]]>", " "}
	lists := [][]string{nil, {"PLAIN"}, {"X-OAUTH2"}, {"X-FOO", "X-OAUTH2", "PLAIN"}, {"PLAIN", "PLAIN"}, {"DIGEST-MD5", "SCRAM-SHA-1"}, {"plain"}}
	replies := []struct {
		name, xml string
		kind      int // 0 success, 1 failure, 2 other
	}{
		{"success", "<success xmlns='urn:ietf:params:xml:ns:xmpp-sasl'/>", 0},
		{"failure", "<failure xmlns='urn:ietf:params:xml:ns:xmpp-sasl'><not-authorized/></failure>", 1},
		{"message", "<message xmlns='jabber:client'/>", 2},
		{"eof", "", 2},
		{"garbage", "<<", 2},
	}
	creds := []struct {
		c    Credential
		mech string
	}{}
	for _, sec := range secrets {
		creds = append(creds, struct {
			c    Credential
			mech string
		}{Password(sec), "PLAIN"}, struct {
			c    Credential
			mech string
		}{OAuthToken(sec), "X-OAUTH2"})
	}
	for _, user := range users {
		for _, cr := range creds {
			for _, list := range lists {
				for _, rp := range replies {
					cases++
					sock := &c14sock{in: bytes.NewReader([]byte(rp.xml))}
					f := stanza.StreamFeatures{}
					f.Mechanisms.Mechanism = list
					var err error
					func() {
						defer func() {
							if r := recover(); r != nil {
								report("user=%q list=%v reply=%s: panic %v", user, list, rp.name, r)
							}
						}()
						err = authSASL(sock, xml.NewDecoder(sock), f, user, cr.c)
					}()
					desc := fmt.Sprintf("user=%q secret=%q mech=%s list=%v reply=%s", user, cr.c.secret, cr.mech, list, rp.name)
					common := false
					for _, m := range list {
						if m == cr.mech {
							common = true
						}
					}
					if !common {
						ce, ok := err.(ConnError)
						if sock.writes != 0 || !ok || !ce.Permanent {
							report("%s: no common mechanism, but writes=%d err=%v", desc, sock.writes, err)
						}
						continue
					}
					if sock.writes != 1 || sock.readBeforeWrite {
						report("%s: %d writes, readBeforeWrite=%v", desc, sock.writes, sock.readBeforeWrite)
						continue
					}
					var a struct {
						XMLName   xml.Name `xml:"urn:ietf:params:xml:ns:xmpp-sasl auth"`
						Mechanism string   `xml:"mechanism,attr"`
						Value     string   `xml:",chardata"`
					}
					if e := xml.Unmarshal(sock.out.Bytes(), &a); e != nil {
						report("%s: cannot decode what was written (%q): %v", desc, sock.out.String(), e)
						continue
					}
					raw, e := base64.StdEncoding.DecodeString(strings.TrimSpace(a.Value))
					want := "\x00" + user + "\x00" + cr.c.secret
					if e != nil || string(raw) != want || a.Mechanism != cr.mech {
						report("%s: wrote mechanism %q payload %q, want %q %q", desc, a.Mechanism, raw, cr.mech, want)
					}
					switch rp.kind {
					case 0:
						if err != nil {
							report("%s: success reply but err=%v", desc, err)
						}
					case 1:
						ce, ok := err.(ConnError)
						if !ok || !ce.Permanent {
							report("%s: failure reply but err=%v (want permanent)", desc, err)
						}
					default:
						if err == nil {
							report("%s: treated as authenticated", desc)
						}
					}
				}
			}
		}
	}
	fmt.Printf("REPLAY-CASES: %d\n", cases)
}
