package xmpp

// Replay / bounded contract-execution sweep for C16 (injected with go test -overlay): the digest against an
// independent crypto/sha1 computation, and Component.Resume against a scripted TCP server for each reply class.

import (
	"bufio"
	"crypto/sha1"
	"encoding/hex"
	"fmt"
	"html"
	"net"
	"strings"
	"testing"
	"time"
)

func c16serve(t *testing.T, streamID, reply string, got chan<- string) (addr string, stop func()) {
	ln, err := net.Listen("tcp", "127.0.0.1:0")
	if err != nil {
		t.Skip("no loopback")
	}
	go func() {
		conn, err := ln.Accept()
		if err != nil {
			return
		}
		defer conn.Close()
		conn.SetDeadline(time.Now().Add(5 * time.Second))
		r := bufio.NewReader(conn)
		// read the stream open (possibly preceded by an XML declaration)
		for {
			tok, err := r.ReadString('>')
			if err != nil {
				return
			}
			if strings.Contains(tok, "stream:stream") {
				break
			}
		}
		fmt.Fprintf(conn, "<?xml version='1.0'?><stream:stream xmlns:stream='http://etherx.jabber.org/streams' xmlns='jabber:component:accept' from='c.localhost' id='%s'>", html.EscapeString(streamID))
		line := ""
		for !strings.Contains(line, "</handshake>") {
			tok, err := r.ReadString('>')
			line += tok
			if err != nil {
				break
			}
		}
		line = strings.TrimSpace(line)
		got <- line
		if reply == "CLOSE" {
			return
		}
		conn.Write([]byte(reply))
		time.Sleep(200 * time.Millisecond)
	}()
	return ln.Addr().String(), func() { ln.Close() }
}

func TestVerifReplay_C16(t *testing.T) {
	cases, fails := 0, 0
	report := func(f string, a ...interface{}) {
		fails++
		if fails <= 6 {
			fmt.Printf("REPLAY-FAIL: "+f+"\n", a...)
		}
	}
	ids := []string{"", "1263952298440005243", "a&b<é'0", "UPPER", "é世", strings.Repeat("x", 300)}
	secrets := []string{"", "mypass", "s3<cr&t", "SECRET", "é"}
	for _, id := range ids {
		for _, sec := range secrets {
			cases++
			c := Component{ComponentOptions: ComponentOptions{Secret: sec}}
			sum := sha1.Sum([]byte(id + sec))
			want := hex.EncodeToString(sum[:])
			if got := c.handshake(id); got != want || got != strings.ToLower(got) || len(got) != 40 {
				report("Component{Secret:%q}.handshake(%q) = %q, want %q", sec, id, got, want)
			}
		}
	}
	replies := []struct {
		name, reply string
		ok          bool
	}{
		{"handshake", "<handshake/>", true},
		{"stream-error", "<stream:error><not-authorized xmlns='urn:ietf:params:xml:ns:xmpp-streams'/></stream:error>", false},
		{"message", "<message/>", false},
		{"presence-then-handshake", "<presence/><handshake/>", false},
		{"close", "CLOSE", false},
		{"garbage", "<<<", false},
	}
	for _, rp := range replies {
		for _, id := range []string{"abc123", "a&b<c"} {
			cases++
			got := make(chan string, 1)
			addr, stop := c16serve(t, id, rp.reply, got)
			states := []ConnState{}
			c, _ := NewComponent(ComponentOptions{TransportConfiguration: TransportConfiguration{Address: addr, Domain: "c.localhost", ConnectTimeout: 1},
				Domain: "c.localhost", Secret: "s3<cr&t"}, NewRouter(), func(error) {})
			c.SetHandler(func(e Event) error { states = append(states, e.State.state); return nil })
			err := c.Resume()
			var wire string
			select {
			case wire = <-got:
			case <-time.After(3 * time.Second):
			}
			sum := sha1.Sum([]byte(id + "s3<cr&t"))
			want := "<handshake>" + hex.EncodeToString(sum[:]) + "</handshake>"
			if wire != want {
				report("reply=%s id=%q: handshake on the wire %q, want %q", rp.name, id, wire, want)
			}
			established := false
			for _, s := range states {
				if s == StateSessionEstablished {
					established = true
				}
			}
			if rp.ok && (err != nil || !established || c.CurrentState.getState() != StateSessionEstablished) {
				report("reply=%s id=%q: Resume() = %v, established=%v", rp.name, id, err, established)
			}
			if !rp.ok && (err == nil || established || c.CurrentState.getState() == StateSessionEstablished) {
				report("reply=%s id=%q: Resume() = %v, established=%v, state=%d; want an error and a non-established state", rp.name, id, err, established, c.CurrentState.getState())
			}
			go c.Disconnect()
			stop()
		}
	}
	fmt.Printf("REPLAY-CASES: %d\n", cases)
}
