package xmpp

// Replay / bounded contract-execution sweep for C12 (injected with go test -overlay): a sample inbound stream is cut
// at EVERY byte offset; the real receive loop must call the error handler exactly once, announce Disconnected exactly
// once with the stream-management state, close the keepalive channel exactly once, and must have routed every stanza
// that was completely received before the cut.

import (
	"context"
	"encoding/xml"
	"fmt"
	"io"
	"net/http"
	"net/http/httptest"
	"strings"
	"sync"
	"testing"
	"time"

	"nhooyr.io/websocket"

	"gosrc.io/xmpp/stanza"
)

type c12transport struct {
	d        *xml.Decoder
	failWrite bool
}

func (t *c12transport) Connect() (string, error)     { return "", nil }
func (t *c12transport) DoesStartTLS() bool           { return false }
func (t *c12transport) StartTLS() error              { return nil }
func (t *c12transport) LogTraffic(io.Writer)         {}
func (t *c12transport) StartStream() (string, error) { return "", nil }
func (t *c12transport) GetDecoder() *xml.Decoder     { return t.d }
func (t *c12transport) IsSecure() bool               { return true }
func (t *c12transport) Ping() error                  { return nil }
func (t *c12transport) Read(p []byte) (int, error)   { return 0, io.EOF }
func (t *c12transport) Close() error                 { return nil }
func (t *c12transport) ReceivedStreamClose()         {}
func (t *c12transport) Write(p []byte) (int, error) {
	if t.failWrite {
		return 0, io.ErrClosedPipe
	}
	return len(p), nil
}

func TestVerifReplay_C12(t *testing.T) {
	cases, fails := 0, 0
	report := func(f string, a ...interface{}) {
		fails++
		if fails <= 6 {
			fmt.Printf("REPLAY-FAIL: "+f+"\n", a...)
		}
	}
	elems := []string{
		"<message xmlns='jabber:client' id='m1'><body>a &amp; b</body></message>",
		"<presence xmlns='jabber:client' id='p1'><show>away</show></presence>",
		"<r xmlns='urn:xmpp:sm:3'/>",
		"<iq xmlns='jabber:client' type='result' id='i1'><query xmlns='jabber:iq:version'><name>x</name></query></iq>",
		"<a xmlns='urn:xmpp:sm:3' h='1'/>",
		"<message xmlns='jabber:client' id='m2'><body><![CDATA[x]]></body></message>",
	}
	stream := strings.Join(elems, "")
	// completed[i] = ids of stanzas whose end offset is <= i
	type done struct {
		end int
		id  string
	}
	var ends []done
	off := 0
	for _, e := range elems {
		off += len(e)
		if i := strings.Index(e, "id='"); i >= 0 {
			ends = append(ends, done{off, e[i+4 : i+6]})
		}
	}
	for _, sm := range []bool{false, true} {
		for _, failWrite := range []bool{false, true} {
			for cut := 0; cut <= len(stream); cut++ {
				cases++
				tr := &c12transport{d: xml.NewDecoder(strings.NewReader(stream[:cut])), failWrite: failWrite}
				var mu sync.Mutex
				routed := map[string]int{}
				router := NewRouter()
				router.NewRoute().HandlerFunc(func(s Sender, p stanza.Packet) {
					mu.Lock()
					defer mu.Unlock()
					switch x := p.(type) {
					case stanza.Message:
						routed[x.Id]++
					case stanza.Presence:
						routed[x.Id]++
					case *stanza.IQ:
						routed[x.Id]++
					}
				})
				nerr, nev := 0, 0
				var evState SMState
				c := &Client{config: &Config{StreamManagementEnable: sm}, transport: tr, router: router, ErrorHandler: func(error) { nerr++ }}
				c.Session = &Session{transport: tr}
				c.Session.SMState = SMState{Id: "sid", UnAckQueue: stanza.NewUnAckQueue()}
				c.CurrentState.setState(StateSessionEstablished)
				c.SetHandler(func(e Event) error {
					if e.State.state == StateDisconnected {
						nev++
						evState = e.SMState
					}
					return nil
				})
				quit := make(chan struct{})
				panicked := false
				func() {
					defer func() {
						if r := recover(); r != nil {
							panicked = true
							report("cut at byte %d (sm=%v failWrite=%v): panic %v", cut, sm, failWrite, r)
						}
					}()
					c.recv(quit)
				}()
				if panicked {
					continue
				}
				closed := false
				select {
				case _, ok := <-quit:
					closed = !ok
				default:
				}
				desc := fmt.Sprintf("stream cut at byte %d of %d (sm=%v, answer write fails=%v)", cut, len(stream), sm, failWrite)
				if nerr != 1 || nev != 1 || !closed || c.CurrentState.getState() != StateDisconnected {
					report("%s: %d error callbacks, %d Disconnected events, keepalive channel closed=%v, state=%d; want 1, 1, true, Disconnected", desc, nerr, nev, closed, c.CurrentState.getState())
					continue
				}
				if evState.Id != "sid" || evState.UnAckQueue != c.Session.SMState.UnAckQueue || evState.Inbound != c.Session.SMState.Inbound {
					report("%s: the event does not carry the stream-management state (%+v)", desc, evState)
				}
				time.Sleep(time.Millisecond)
				deadline := time.Now().Add(time.Second)
				for _, d := range ends {
					if d.end > cut {
						continue
					}
					if failWrite && d.end > len(elems[0])+len(elems[1]) {
						continue // the loop ends at the unanswerable <r/>
					}
					for {
						mu.Lock()
						n := routed[d.id]
						mu.Unlock()
						if n == 1 || time.Now().After(deadline) {
							if n != 1 {
								report("%s: stanza %s was completely received but routed %d times", desc, d.id, n)
							}
							break
						}
						time.Sleep(time.Millisecond)
					}
				}
			}
		}
	}
	// closing a transport twice (the keepalive closes a dead connection, Disconnect closes again; a stream error makes
	// both the receive loop and the StreamManager's handler disconnect) must not panic - websocket transport
	cases++
	if m := c12wsCloseTwice(); m != "" {
		report("%s", m)
	}
	fmt.Printf("REPLAY-CASES: %d\n", cases)
}

func c12wsCloseTwice() (msg string) {
	srv := httptest.NewServer(http.HandlerFunc(func(w http.ResponseWriter, r *http.Request) {
		c, err := websocket.Accept(w, r, &websocket.AcceptOptions{Subprotocols: []string{"xmpp"}})
		if err != nil {
			return
		}
		ctx := context.Background()
		c.Read(ctx)
		c.Write(ctx, websocket.MessageText, []byte(`<open xmlns="urn:ietf:params:xml:ns:xmpp-framing" id="s1" version="1.0"/>`))
		time.Sleep(time.Second)
	}))
	defer srv.Close()
	var tr Transport = &WebsocketTransport{Config: TransportConfiguration{Address: "ws" + strings.TrimPrefix(srv.URL, "http"), Domain: "localhost", ConnectTimeout: 5}}
	if _, err := tr.Connect(); err != nil {
		return "websocket connect: " + err.Error()
	}
	defer func() {
		if r := recover(); r != nil {
			msg = fmt.Sprintf("closing the websocket transport a second time panics: %v", r)
		}
	}()
	tr.Close()
	tr.Close()
	return ""
}
