package xmpp

// Replay / bounded contract-execution sweep for C03 and C04 (injected with go test -overlay): the real NewSession /
// Client.connect over a scripted transport. At every negotiation step the server's reply is drawn from
// {confirming reply, failure/error reply, unexpected element, malformed XML, connection closed}; for every client
// configuration. Oracle: success iff every mandatory step was confirmed; no <auth/> or stanza is written on a
// transport that is not secure unless Insecure is set; requests appear in RFC 6120 order.

import (
	"encoding/xml"
	"errors"
	"fmt"
	"io"
	"strings"
	"testing"

	"gosrc.io/xmpp/stanza"
)

type c03transport struct {
	d          *xml.Decoder
	secure     bool
	tlsOK      bool
	doesTLS    bool
	w          []string
	wSecure    []bool
	startTLSn  int
	restarts   int
}

func (t *c03transport) Connect() (string, error)     { return "sid", nil }
func (t *c03transport) DoesStartTLS() bool           { return t.doesTLS }
func (t *c03transport) StartTLS() error {
	t.startTLSn++
	if t.tlsOK {
		t.secure = true
		return nil
	}
	return errors.New("x509: certificate is not valid")
}
func (t *c03transport) LogTraffic(io.Writer)         {}
func (t *c03transport) StartStream() (string, error) { t.restarts++; t.w = append(t.w, "<stream>"); t.wSecure = append(t.wSecure, t.secure); return "sid", nil }
func (t *c03transport) GetDecoder() *xml.Decoder     { return t.d }
func (t *c03transport) IsSecure() bool               { return t.secure }
func (t *c03transport) Ping() error                  { return nil }
func (t *c03transport) Read(p []byte) (int, error)   { return 0, io.EOF }
func (t *c03transport) Close() error                 { return nil }
func (t *c03transport) ReceivedStreamClose()         {}
func (t *c03transport) Write(p []byte) (int, error) {
	t.w = append(t.w, string(p))
	t.wSecure = append(t.wSecure, t.secure)
	return len(p), nil
}

const (
	c03feat    = "<stream:features xmlns:stream='http://etherx.jabber.org/streams'>FEATS</stream:features>"
	c03tlsF    = "<starttls xmlns='urn:ietf:params:xml:ns:xmpp-tls'><required/></starttls>"
	c03mechF   = "<mechanisms xmlns='urn:ietf:params:xml:ns:xmpp-sasl'><mechanism>PLAIN</mechanism></mechanisms>"
	c03bindF   = "<bind xmlns='urn:ietf:params:xml:ns:xmpp-bind'/>"
	c03sessF   = "<session xmlns='urn:ietf:params:xml:ns:xmpp-session'/>"
	c03smF     = "<sm xmlns='urn:xmpp:sm:3'/>"
	c03proceed = "<proceed xmlns='urn:ietf:params:xml:ns:xmpp-tls'/>"
	c03success = "<success xmlns='urn:ietf:params:xml:ns:xmpp-sasl'/>"
	c03bindOK  = "<iq xmlns='jabber:client' type='result' id='1'><bind xmlns='urn:ietf:params:xml:ns:xmpp-bind'><jid>u@d/r</jid></bind></iq>"
	c03sessOK  = "<iq xmlns='jabber:client' type='result' id='2'/>"
	c03enabled = "<enabled xmlns='urn:xmpp:sm:3' id='sm1' resume='true'/>"
	c03resumed = "<resumed xmlns='urn:xmpp:sm:3' previd='old' h='0'/>"
)

var c03bad = map[string][]string{
	"features": {"<stream:error xmlns:stream='http://etherx.jabber.org/streams'><host-unknown xmlns='urn:ietf:params:xml:ns:xmpp-streams'/></stream:error>", "<message xmlns='jabber:client'/>", "<<<", ""},
	"proceed":  {"<failure xmlns='urn:ietf:params:xml:ns:xmpp-tls'/>", "<message xmlns='jabber:client'/>", "<<<", ""},
	"auth":     {"<failure xmlns='urn:ietf:params:xml:ns:xmpp-sasl'><not-authorized/></failure>", "<message xmlns='jabber:client'/>", "<<<", ""},
	"bind":     {"<iq xmlns='jabber:client' type='error' id='1'><bind xmlns='urn:ietf:params:xml:ns:xmpp-bind'/><error type='cancel'><conflict xmlns='urn:ietf:params:xml:ns:xmpp-stanzas'/></error></iq>", "<iq xmlns='jabber:client' type='result' id='1'/>", "<message xmlns='jabber:client'/>", "<message xmlns='jabber:client' type='result' id='1'><bind xmlns='urn:ietf:params:xml:ns:xmpp-bind'><jid>u@d/r</jid></bind></message>", "<<<", ""},
	"session":  {"<presence xmlns='jabber:client' type='result' id='2'/>", "<iq xmlns='jabber:client' type='error' id='2'><error type='cancel'><forbidden xmlns='urn:ietf:params:xml:ns:xmpp-stanzas'/></error></iq>", "<<<", ""},
	"enable":   {"<failed xmlns='urn:xmpp:sm:3'><unexpected-request xmlns='urn:ietf:params:xml:ns:xmpp-stanzas'/></failed>", "<failed xmlns='urn:xmpp:sm:3'/>", "<message xmlns='jabber:client'/>", "<<<", ""},
	"resume":   {"<resumed xmlns='urn:xmpp:sm:3' previd='other' h='0'/>", "<message xmlns='jabber:client'/>", "<<<", ""},
}

type step = struct{ name, ok string }

func TestVerifReplay_C03(t *testing.T) {
	cases, fails := 0, 0
	report := func(f string, a ...interface{}) {
		fails++
		if fails <= 8 {
			fmt.Printf("REPLAY-FAIL: "+f+"\n", a...)
		}
	}
	type cfgT struct{ insecure, tlsOffered, tlsOK, sm, sess, resumable bool }
	var cfgs []cfgT
	for i := 0; i < 64; i++ {
		cfgs = append(cfgs, cfgT{i&1 != 0, i&2 != 0, i&4 != 0, i&8 != 0, i&16 != 0, i&32 != 0})
	}
	for _, cf := range cfgs {
		// the steps of this configuration, in order
		feats := func(parts ...string) string { return strings.Replace(c03feat, "FEATS", strings.Join(parts, ""), 1) }
		f0 := []string{c03mechF}
		if cf.tlsOffered {
			f0 = append([]string{c03tlsF}, f0...)
		}
		steps := []step{{"features", feats(f0...)}}
		tlsHappens := cf.tlsOffered
		if tlsHappens {
			steps = append(steps, step{"proceed", c03proceed})
			if cf.tlsOK {
				steps = append(steps, step{"features", feats(c03mechF)})
			}
		}
		secureAtAuth := tlsHappens && cf.tlsOK
		canAuth := secureAtAuth || cf.insecure
		if tlsHappens && !cf.tlsOK {
			canAuth = false // StartTLS failed: s.err is set, negotiation must fail
		}
		if canAuth {
			steps = append(steps, step{"auth", c03success})
			post := []string{c03bindF}
			if cf.sess {
				post = append(post, c03sessF)
			}
			if cf.sm {
				post = append(post, c03smF)
			}
			steps = append(steps, step{"features", feats(post...)})
			if cf.resumable && cf.sm {
				steps = append(steps, step{"resume", c03resumed})
			} else {
				steps = append(steps, step{"bind", c03bindOK})
				if cf.sess {
					steps = append(steps, step{"session", c03sessOK})
				}
				if cf.sm {
					steps = append(steps, step{"enable", c03enabled})
				}
			}
		}
		// failAt == -1: every step confirmed; otherwise step failAt gets each bad reply
		for failAt := -1; failAt < len(steps); failAt++ {
			variants := []string{""}
			if failAt >= 0 {
				variants = c03bad[steps[failAt].name]
			}
			for vi0, bad := range variants {
			  // a reused session may come from a connection that had negotiated TLS, or not
			  prevTLSs := []bool{false}
			  if cf.resumable {
				prevTLSs = []bool{false, true}
			  }
			  for _, prevTLS := range prevTLSs {
				vi := vi0
				cases++
				var sb strings.Builder
				for i, st := range steps {
					if i == failAt {
						sb.WriteString(bad)
						break
					}
					sb.WriteString(st.ok)
				}
				tr := &c03transport{d: xml.NewDecoder(strings.NewReader(sb.String())), tlsOK: cf.tlsOK, doesTLS: true}
				jid, _ := stanza.NewJid("u@d/r")
				conf := &Config{Insecure: cf.insecure, StreamManagementEnable: cf.sm, parsedJid: jid, Credential: Password("pw")}
				c := &Client{config: conf, transport: tr, ErrorHandler: func(error) {}}
				if cf.resumable {
					c.Session = &Session{transport: tr, BindJid: "u@d/old"}
					c.Session.SMState = SMState{Id: "old", UnAckQueue: stanza.NewUnAckQueue()}
					c.Session.TlsEnabled = prevTLS
				}
				established := 0
				c.SetHandler(func(e Event) error {
					if e.State.state == StateSessionEstablished {
						established++
					}
					return nil
				})
				var err error
				func() {
					defer func() {
						if r := recover(); r != nil {
							report("config %+v failAt=%d/%d: panic %v", cf, failAt, vi, r)
							err = errors.New("panic")
						}
					}()
					err = c.connect()
				}()
				desc := fmt.Sprintf("config %+v (previous connection with TLS: %v), steps %v, bad reply #%d at step %d", cf, prevTLS, stepNames(steps), vi, failAt)
				wantOK := failAt == -1 && canAuth
				if (err == nil) != wantOK || (established == 1) != wantOK || established > 1 {
					report("%s: connect() = %v, SessionEstablished announced %d times; want success=%v", desc, err, established, wantOK)
					continue
				}
				// C04: nothing but the stream header and <starttls/> may be written while the transport is not secure, unless Insecure
				for i, w := range tr.w {
					if !tr.wSecure[i] && !cf.insecure && !strings.HasPrefix(w, "<stream>") && !strings.HasPrefix(w, "<starttls") {
						report("%s: wrote %q on a connection that is not secure", desc, w)
					}
				}
				// the stream is restarted before <auth/> exactly when TLS was negotiated on THIS connection
				restartsBeforeAuth, sawAuth := 0, false
				for _, w := range tr.w {
					if strings.HasPrefix(w, "<auth") {
						sawAuth = true
						break
					}
					if w == "<stream>" {
						restartsBeforeAuth++
					}
				}
				wantRestarts := 0
				if tlsHappens && cf.tlsOK {
					wantRestarts = 1
				}
				if sawAuth && restartsBeforeAuth != wantRestarts {
					report("%s: %d stream restart(s) before <auth/>, want %d (%v)", desc, restartsBeforeAuth, wantRestarts, tr.w)
				}
				// order of the client's own requests
				order := []string{"<starttls", "<auth", "<resume", "<iq", "<enable"}
				last := -1
				for _, w := range tr.w {
					for k, p := range order {
						if strings.HasPrefix(w, p) {
							if k < last && !(p == "<iq") {
								report("%s: request %q written out of order (%v)", desc, w, tr.w)
							}
							if k > last {
								last = k
							}
						}
					}
				}
				if wantOK && cf.resumable && cf.sm && (c.Session.BindJid != "u@d/old" || c.Session.SMState.Id != "old") {
					report("%s: a confirmed resumption must keep the session (BindJid=%q id=%q)", desc, c.Session.BindJid, c.Session.SMState.Id)
				}
			  }
			}
		}
	}
	fmt.Printf("REPLAY-CASES: %d\n", cases)
}

func stepNames(steps []struct{ name, ok string }) []string {
	var out []string
	for _, s := range steps {
		out = append(out, s.name)
	}
	return out
}
