package xmpp

// Replay harness for C07 (injected with go test -overlay). Contracts decide C07 per activation; this harness runs the
// schedules that turn a violated obligation into an observable failure on the real code, each forced
// deterministically (or, for the double delivery, retried until the window is hit):
//
//   order     the response arrives between the write of the request and the return of SendIQ (transport whose Write
//             delivers the response synchronously): it must reach the SendIQ caller, not the ordinary routes
//   atomic    two responses with the same id race through route(): exactly one is delivered, nothing panics
//   noblock   the SendIQ caller has stopped listening: route() must return (a Component routes inside its receive loop)
//   owner     the context of a finished request ends after its id was reused: the newer request stays registered
//   sequence  sequential histories of register / respond / duplicate / foreign / cancel against a reference table
//
// Output protocol: "REPLAY-FAIL: <what>", "REPLAY-CASES: <n>".

import (
	"context"
	"encoding/xml"
	"fmt"
	"io"
	"sync"
	"testing"
	"time"

	"gosrc.io/xmpp/stanza"
)

type c07transport struct {
	onWrite func(p []byte)
	fail    bool
}

func (t *c07transport) Connect() (string, error)     { return "", nil }
func (t *c07transport) DoesStartTLS() bool           { return false }
func (t *c07transport) StartTLS() error              { return nil }
func (t *c07transport) LogTraffic(io.Writer)         {}
func (t *c07transport) StartStream() (string, error) { return "", nil }
func (t *c07transport) GetDecoder() *xml.Decoder     { return nil }
func (t *c07transport) IsSecure() bool               { return true }
func (t *c07transport) Ping() error                  { return nil }
func (t *c07transport) Read(p []byte) (int, error)   { return 0, io.EOF }
func (t *c07transport) Close() error                 { return nil }
func (t *c07transport) ReceivedStreamClose()         {}
func (t *c07transport) Write(p []byte) (int, error) {
	if t.fail {
		return 0, io.ErrClosedPipe
	}
	if t.onWrite != nil {
		t.onWrite(p)
	}
	return len(p), nil
}

type c07sender struct{}

func (c07sender) Send(stanza.Packet) error { return nil }
func (c07sender) SendIQ(context.Context, *stanza.IQ) (chan stanza.IQ, error) {
	return nil, nil
}
func (c07sender) SendRaw(string) error { return nil }

type c07handler struct {
	mu  sync.Mutex
	ids []string
}

func (h *c07handler) HandlePacket(s Sender, p stanza.Packet) {
	if iq, ok := p.(*stanza.IQ); ok {
		h.mu.Lock()
		h.ids = append(h.ids, iq.Id)
		h.mu.Unlock()
	}
}

func (h *c07handler) count() int {
	h.mu.Lock()
	defer h.mu.Unlock()
	return len(h.ids)
}

func c07router(h *c07handler) *Router {
	r := NewRouter()
	r.NewRoute().IQNamespaces("urn:c07").Handler(h)
	r.NewRoute().Packet("iq").Handler(h)
	return r
}

func c07resp(id string) *stanza.IQ {
	return &stanza.IQ{Attrs: stanza.Attrs{Type: stanza.IQTypeResult, Id: id, From: "srv"}}
}

// c07recv reads one value from ch within d; ok=false on timeout, closed=true if the channel was closed instead.
func c07recv(ch chan stanza.IQ, d time.Duration) (iq stanza.IQ, ok, closed bool) {
	select {
	case v, open := <-ch:
		if !open {
			return v, false, true
		}
		return v, true, false
	case <-time.After(d):
		return iq, false, false
	}
}

func c07pending(r *Router, id string) bool {
	r.IQResultRouteLock.RLock()
	defer r.IQResultRouteLock.RUnlock()
	_, ok := r.IQResultRoutes[id]
	return ok
}

// scenario "order": for the client and for the component
func c07order(component bool) string {
	h := &c07handler{}
	r := c07router(h)
	tr := &c07transport{}
	var s Sender
	var sendIQ func(context.Context, *stanza.IQ) (chan stanza.IQ, error)
	if component {
		c := &Component{transport: tr, router: r}
		s, sendIQ = c, c.SendIQ
	} else {
		c := &Client{config: &Config{}, transport: tr, router: r}
		c.Session = &Session{}
		c.Session.SMState.UnAckQueue = stanza.NewUnAckQueue()
		s, sendIQ = c, c.SendIQ
	}
	done := make(chan struct{})
	tr.onWrite = func([]byte) {
		// the server answers at once; the receive loop routes the answer before SendIQ gets to run again
		go func() { r.route(s, c07resp("o1")); close(done) }()
		select {
		case <-done:
		case <-time.After(300 * time.Millisecond):
		}
	}
	ctx, cancel := context.WithCancel(context.Background())
	defer cancel()
	ch, err := sendIQ(ctx, &stanza.IQ{Attrs: stanza.Attrs{Type: stanza.IQTypeGet, Id: "o1", To: "srv"}})
	if err != nil {
		return "SendIQ failed: " + err.Error()
	}
	v, ok, _ := c07recv(ch, 3*time.Second)
	if !ok {
		return fmt.Sprintf("response that arrived right after the request was written never reached the SendIQ caller (ordinary routes got %d packet(s))", h.count())
	}
	if v.Id != "o1" || h.count() != 0 {
		return fmt.Sprintf("delivered id %q, ordinary routes got %d packet(s)", v.Id, h.count())
	}
	return ""
}

// scenario "atomic": two activations of route() for the same id started together; the window (both look the entry up
// before either removes it) is a race, so the scenario is repeated. A round costs microseconds unless something hangs.
func c07atomic(tries int) string {
	for i := 0; i < tries; i++ {
		h := &c07handler{}
		r := c07router(h)
		ctx, cancel := context.WithCancel(context.Background())
		ch := r.NewIQResultRoute(ctx, "a1")
		s := &c07sender{}
		panics := make(chan interface{}, 2)
		start := make(chan struct{})
		var wg sync.WaitGroup
		for k := 0; k < 2; k++ {
			wg.Add(1)
			go func() {
				defer wg.Done()
				defer func() {
					if p := recover(); p != nil {
						panics <- p
					}
				}()
				<-start
				r.route(s, c07resp("a1"))
			}()
		}
		got := make(chan int, 1)
		go func() {
			n := 0
			for range ch {
				n++
			}
			got <- n
		}()
		close(start)
		fin := make(chan struct{})
		go func() { wg.Wait(); close(fin) }()
		stuck := false
		select {
		case <-fin:
		case <-time.After(2 * time.Second):
			stuck = true
		}
		cancel()
		select {
		case p := <-panics:
			return fmt.Sprintf("two responses with the same id: route() panicked: %v (round %d)", p, i)
		default:
		}
		if stuck {
			return fmt.Sprintf("two responses with the same id: a route() call never returned (round %d)", i)
		}
		n := <-got
		if n != 1 {
			return fmt.Sprintf("two responses with the same id: %d deliveries on one channel (round %d)", n, i)
		}
		if h.count() != 1 {
			return fmt.Sprintf("two responses with the same id: one delivered, but the ordinary routes got %d instead of the other one (round %d)", h.count(), i)
		}
	}
	return ""
}

// scenario "noblock"
func c07noblock() string {
	h := &c07handler{}
	r := c07router(h)
	ctx, cancel := context.WithCancel(context.Background())
	defer cancel()
	_ = r.NewIQResultRoute(ctx, "n1") // the caller never reads the channel
	ret := make(chan struct{})
	go func() { r.route(&c07sender{}, c07resp("n1")); close(ret) }()
	select {
	case <-ret:
		return ""
	case <-time.After(2 * time.Second):
		return "route() blocks for ever when the SendIQ caller has stopped listening (a Component routes inside its receive loop: packet processing stops)"
	}
}

// scenario "owner"
func c07owner() string {
	h := &c07handler{}
	r := c07router(h)
	ctxA, cancelA := context.WithCancel(context.Background())
	chA := r.NewIQResultRoute(ctxA, "w1")
	go r.route(&c07sender{}, c07resp("w1"))
	if _, ok, _ := c07recv(chA, 3*time.Second); !ok {
		cancelA()
		return "first request not answered"
	}
	ctxB, cancelB := context.WithCancel(context.Background())
	defer cancelB()
	chB := r.NewIQResultRoute(ctxB, "w1") // the id is used again
	cancelA()                             // the first request's context ends now
	time.Sleep(50 * time.Millisecond)
	if !c07pending(r, "w1") {
		return "the end of a finished request's context removed a newer pending request that reuses its id"
	}
	go r.route(&c07sender{}, c07resp("w1"))
	if _, ok, _ := c07recv(chB, 3*time.Second); !ok {
		return "second request with a reused id not answered"
	}
	return ""
}

// sequential histories: ops over two ids; 0/1 register id, 2/3 respond id, 4 foreign response, 5/6 cancel id's context
func c07sequence(ops []int) string {
	h := &c07handler{}
	r := c07router(h)
	ids := []string{"s0", "s1"}
	type pend struct {
		ch     chan stanza.IQ
		cancel context.CancelFunc
	}
	cur := map[string]*pend{}
	ordinary := 0
	desc := fmt.Sprintf("ops=%v", ops)
	for step, op := range ops {
		switch {
		case op <= 1:
			id := ids[op]
			ctx, cancel := context.WithCancel(context.Background())
			cur[id] = &pend{r.NewIQResultRoute(ctx, id), cancel}
		case op <= 4:
			id := "foreign"
			if op < 4 {
				id = ids[op-2]
			}
			ret := make(chan struct{})
			go func() { r.route(&c07sender{}, c07resp(id)); close(ret) }()
			p := cur[id]
			if p != nil {
				v, ok, _ := c07recv(p.ch, 3*time.Second)
				if !ok || v.Id != id {
					return fmt.Sprintf("%s step %d: pending request %s did not get its response", desc, step, id)
				}
				if _, ok2, closed := c07recv(p.ch, 3*time.Second); ok2 || !closed {
					return fmt.Sprintf("%s step %d: channel of %s not closed after the single delivery", desc, step, id)
				}
				delete(cur, id)
			} else {
				ordinary++
			}
			select {
			case <-ret:
			case <-time.After(3 * time.Second):
				return fmt.Sprintf("%s step %d: route() did not return", desc, step)
			}
			if h.count() != ordinary {
				return fmt.Sprintf("%s step %d: ordinary routes saw %d packets, expected %d", desc, step, h.count(), ordinary)
			}
		default:
			id := ids[op-5]
			if p := cur[id]; p != nil {
				p.cancel()
				deadline := time.Now().Add(3 * time.Second)
				for c07pending(r, id) && time.Now().Before(deadline) {
					time.Sleep(time.Millisecond)
				}
				if c07pending(r, id) {
					return fmt.Sprintf("%s step %d: cancelled request %s still pending", desc, step, id)
				}
				delete(cur, id)
			}
		}
		for _, id := range ids {
			if (cur[id] != nil) != c07pending(r, id) {
				return fmt.Sprintf("%s step %d: pending table has %s=%v, reference %v", desc, step, id, c07pending(r, id), cur[id] != nil)
			}
		}
	}
	for _, p := range cur {
		p.cancel()
	}
	return ""
}

func TestVerifReplay_C07(t *testing.T) {
	cases, fails := 0, 0
	report := func(tag, m string) {
		if m != "" {
			fails++
			if fails <= 8 {
				fmt.Printf("REPLAY-FAIL[%s]: %s\n", tag, m)
			}
		}
	}
	cases++
	report("C07.order", c07order(false))
	cases++
	report("C07.order", c07order(true))
	cases++
	report("C07.noblock", c07noblock())
	cases++
	report("C07.owner", c07owner())
	tries := 20000
	cases += tries
	report("C07.atomic", c07atomic(tries))
	// a failed request leaves nothing pending
	{
		cases++
		r := NewRouter()
		c := &Component{transport: &c07transport{fail: true}, router: r}
		ctx, cancel := context.WithCancel(context.Background())
		if _, err := c.SendIQ(ctx, &stanza.IQ{Attrs: stanza.Attrs{Type: stanza.IQTypeGet, Id: "f1"}}); err == nil {
			report("C07.failed", "SendIQ on a failing transport returned no error")
		} else if c07pending(r, "f1") {
			report("C07.failed", "a request that could not be written stays pending")
		}
		cancel()
	}
	maxLen := 4
	var rec func(prefix []int)
	rec = func(prefix []int) {
		if fails >= 8 {
			return
		}
		if len(prefix) > 0 {
			cases++
			report("C07.sequence", c07sequence(prefix))
		}
		if len(prefix) == maxLen {
			return
		}
		for op := 0; op <= 6; op++ {
			rec(append(append([]int{}, prefix...), op))
		}
	}
	rec(nil)
	fmt.Printf("REPLAY-CASES: %d\n", cases)
}
