package xmpp

// Replay / bounded contract-execution sweep for C20 (injected with go test -overlay).
// Oracle: the five address forms of the property, and net.SplitHostPort for dialability.

import (
	"errors"
	"fmt"
	"net"
	"strconv"
	"strings"
	"testing"
)

func TestVerifReplay_C20(t *testing.T) {
	cases, fails := 0, 0
	report := func(f string, a ...interface{}) {
		fails++
		if fails <= 6 {
			fmt.Printf("REPLAY-FAIL: "+f+"\n", a...)
		}
	}
	hosts := []string{"localhost", "example.com", "127.0.0.1", "a", "xn--e1afmkfd.example"}
	v6 := []string{"::1", "1ca3:6c07:ee3a:89ca:e065:9a70:71d:daad", "fe80::1%eth0", "::", "2001:db8::2:1"}
	ports := []string{"5222", "1", "65535", "80"}
	check := func(addr string, port int, wantHost, wantPort string) {
		cases++
		got := ensurePort(addr, port)
		h, p, err := net.SplitHostPort(got)
		if err != nil {
			report("ensurePort(%q, %d) = %q is not a valid host:port: %v", addr, port, got, err)
			return
		}
		if h != wantHost || p != wantPort {
			report("ensurePort(%q, %d) = %q: host %q port %q, want host %q port %q", addr, port, got, h, p, wantHost, wantPort)
		}
	}
	for _, def := range []int{5222, 5347, 1} {
		ds := strconv.Itoa(def)
		for _, h := range hosts {
			check(h, def, h, ds)
			for _, p := range ports {
				check(h+":"+p, def, h, p)
			}
		}
		for _, h := range v6 {
			check(h, def, h, ds)
			check("["+h+"]", def, h, ds)
			for _, p := range ports {
				check("["+h+"]:"+p, def, h, p)
			}
		}
	}
	// transports
	for _, a := range []string{"ws://h/x", "wss://h:443/x", "ws:", "wss:h"} {
		cases++
		tr := NewClientTransport(TransportConfiguration{Address: a})
		if w, ok := tr.(*WebsocketTransport); !ok || w.Config.Address != a {
			report("NewClientTransport(%q) is %T, want *WebsocketTransport with the address untouched", a, tr)
		}
		ct, err := NewComponentTransport(TransportConfiguration{Address: a})
		if err == nil || ct != nil || !errors.Is(err, ErrTransportProtocolNotSupported) {
			report("NewComponentTransport(%q) = %v, %v; want ErrTransportProtocolNotSupported", a, ct, err)
		}
	}
	for _, a := range []string{"h", "h:5", "[::1]", "[::1]:7", "::1", "w:1", "wsx", "xws:1"} {
		cases++
		tr := NewClientTransport(TransportConfiguration{Address: a, Domain: "d"})
		x, ok := tr.(*XMPPTransport)
		if !ok || x.Config.Address != ensurePort(a, 5222) || x.Config.Domain != "d" {
			report("NewClientTransport(%q) is %T / wrong configuration", a, tr)
		}
		ct, err := NewComponentTransport(TransportConfiguration{Address: a})
		cx, ok := ct.(*XMPPTransport)
		if err != nil || !ok || cx.Config.Address != ensurePort(a, 5222) {
			report("NewComponentTransport(%q) = %T, %v", a, ct, err)
		}
		if ok && strings.HasPrefix(cx.Config.Address, "ws") && a[0] != 'w' {
			report("unexpected address %q", cx.Config.Address)
		}
	}
	fmt.Printf("REPLAY-CASES: %d\n", cases)
}
