package xmpp

// Replay / bounded contract-execution sweep for C08 (injected with go test -overlay): every sender over a recording
// transport, with stream management and traffic logging on/off and a write failure injected at each send; plus many
// concurrent senders over the real traffic logger, checking that the wire holds exactly the multiset of stanzas,
// each whole.

import (
	"bytes"
	"context"
	"encoding/xml"
	"fmt"
	"io"
	"sort"
	"strings"
	"sync"
	"testing"

	"gosrc.io/xmpp/stanza"
)

type c08conn struct {
	mu     sync.Mutex
	chunks []string
	failAt int
	n      int
	short  bool
}

func (c *c08conn) Read(p []byte) (int, error) { return 0, io.EOF }
func (c *c08conn) Write(p []byte) (int, error) {
	c.mu.Lock()
	defer c.mu.Unlock()
	c.n++
	if c.failAt == c.n {
		if c.short && len(p) > 1 {
			c.chunks = append(c.chunks, string(p[:1]))
			return 1, nil
		}
		return 0, io.ErrClosedPipe
	}
	c.chunks = append(c.chunks, string(p))
	return len(p), nil
}

type c08transport struct {
	rw io.ReadWriter
}

func (t *c08transport) Connect() (string, error)     { return "", nil }
func (t *c08transport) DoesStartTLS() bool           { return false }
func (t *c08transport) StartTLS() error              { return nil }
func (t *c08transport) LogTraffic(io.Writer)         {}
func (t *c08transport) StartStream() (string, error) { return "", nil }
func (t *c08transport) GetDecoder() *xml.Decoder     { return nil }
func (t *c08transport) IsSecure() bool               { return true }
func (t *c08transport) Ping() error                  { return nil }
func (t *c08transport) Read(p []byte) (int, error)   { return 0, io.EOF }
func (t *c08transport) Close() error                 { return nil }
func (t *c08transport) ReceivedStreamClose()         {}
func (t *c08transport) Write(p []byte) (int, error)  { return t.rw.Write(p) }

func TestVerifReplay_C08(t *testing.T) {
	cases, fails := 0, 0
	report := func(f string, a ...interface{}) {
		fails++
		if fails <= 6 {
			fmt.Printf("REPLAY-FAIL: "+f+"\n", a...)
		}
	}
	mk := func(sm, logger bool, conn *c08conn, log io.Writer) (*Client, *Component) {
		var rw io.ReadWriter = conn
		if logger {
			rw = newStreamLogger(conn, log)
		}
		tr := &c08transport{rw: rw}
		c := &Client{config: &Config{StreamManagementEnable: sm}, transport: tr, router: NewRouter()}
		c.Session = &Session{}
		c.Session.SMState.UnAckQueue = stanza.NewUnAckQueue()
		comp := &Component{transport: tr, router: NewRouter()}
		return c, comp
	}
	senders := []string{"Send", "SendRaw", "SendIQ", "CompSend", "CompSendRaw", "CompSendIQ"}
	for _, sm := range []bool{false, true} {
		for _, logger := range []bool{false, true} {
			for _, fail := range []int{0, 1, 2} { // 0 none, 1 hard failure, 2 short write
				for _, sn := range senders {
					cases++
					conn := &c08conn{}
					if fail > 0 {
						conn.failAt = 1
						conn.short = fail == 2
					}
					var logbuf bytes.Buffer
					c, comp := mk(sm, logger, conn, &logbuf)
					iq := &stanza.IQ{Attrs: stanza.Attrs{Type: "get", Id: "q1", To: "a<b&c"}}
					msg := stanza.Message{Attrs: stanza.Attrs{Id: "m1", To: "x@y"}, Body: "a<b & \"c\" ]]>"}
					var want string
					var err error
					ctx, cancel := context.WithCancel(context.Background())
					switch sn {
					case "Send":
						d, _ := xml.Marshal(msg)
						want = string(d)
						err = c.Send(msg)
					case "SendRaw":
						want = "<raw a='1'/>"
						err = c.SendRaw(want)
					case "SendIQ":
						d, _ := xml.Marshal(iq)
						want = string(d)
						_, err = c.SendIQ(ctx, iq)
					case "CompSend":
						d, _ := xml.Marshal(msg)
						want = string(d)
						err = comp.Send(msg)
					case "CompSendRaw":
						want = "<raw a='1'/>"
						err = comp.SendRaw(want)
					case "CompSendIQ":
						d, _ := xml.Marshal(iq)
						want = string(d)
						_, err = comp.SendIQ(ctx, iq)
					}
					cancel()
					desc := fmt.Sprintf("%s sm=%v logger=%v failure=%d", sn, sm, logger, fail)
					wire := strings.Join(conn.chunks, "")
					switch fail {
					case 0:
						if err != nil || wire != want || len(conn.chunks) != 1 {
							report("%s: err=%v, wire has %d writes %q, want exactly one write of %q", desc, err, len(conn.chunks), wire, want)
						}
					default:
						if fail == 2 && !logger {
							// a bare transport reports what the connection reports; the short write is the connection's to signal
							continue
						}
						if err == nil {
							report("%s: the write failed but the sender returned nil", desc)
						}
					}
					// wrong IQ types are refused without touching the wire
					if sn == "SendIQ" || sn == "CompSendIQ" {
						conn2 := &c08conn{}
						c2, comp2 := mk(sm, logger, conn2, &logbuf)
						bad := &stanza.IQ{Attrs: stanza.Attrs{Type: "result", Id: "r"}}
						var e2 error
						if sn == "SendIQ" {
							_, e2 = c2.SendIQ(context.Background(), bad)
						} else {
							_, e2 = comp2.SendIQ(context.Background(), bad)
						}
						if e2 != ErrCanOnlySendGetOrSetIq || len(conn2.chunks) != 0 {
							report("%s: result IQ: err=%v writes=%d", desc, e2, len(conn2.chunks))
						}
					}
				}
			}
		}
	}
	// concurrent senders
	for _, logger := range []bool{false, true} {
		for _, sm := range []bool{false, true} {
			cases++
			conn := &c08conn{}
			var logbuf c08safeBuf
			c, _ := mk(sm, logger, conn, &logbuf)
			var wg sync.WaitGroup
			var want []string
			for g := 0; g < 8; g++ {
				for k := 0; k < 20; k++ {
					want = append(want, fmt.Sprintf("<message id='g%dk%d'><body>%s</body></message>", g, k, strings.Repeat("x", 50+g)))
				}
			}
			for g := 0; g < 8; g++ {
				wg.Add(1)
				go func(g int) {
					defer wg.Done()
					for k := 0; k < 20; k++ {
						if sm {
							// the un-acked queue is not safe for concurrent pushes (see C10): serialise the bookkeeping only
							c08mu.Lock()
						}
						c.SendRaw(want[g*20+k])
						if sm {
							c08mu.Unlock()
						}
					}
				}(g)
			}
			wg.Wait()
			got := append([]string{}, conn.chunks...)
			sort.Strings(got)
			w2 := append([]string{}, want...)
			sort.Strings(w2)
			if strings.Join(got, "\n") != strings.Join(w2, "\n") {
				report("concurrent senders (logger=%v sm=%v): the wire does not hold exactly the stanzas sent, each whole (%d writes for %d stanzas)", logger, sm, len(got), len(w2))
			}
		}
	}
	fmt.Printf("REPLAY-CASES: %d\n", cases)
}

var c08mu sync.Mutex

type c08safeBuf struct {
	mu sync.Mutex
	b  bytes.Buffer
}

func (s *c08safeBuf) Write(p []byte) (int, error) {
	s.mu.Lock()
	defer s.mu.Unlock()
	return s.b.Write(p)
}
