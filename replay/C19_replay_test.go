package xmpp

// Replay / bounded contract-execution sweep for C19 (injected with go test -overlay).
// Oracle: exact math/big evaluation of min(cap, base*factor^n).

import (
	"fmt"
	"math/big"
	"os"
	"testing"
	"time"
)

func c19oracle(base, factor, cap, n int) int64 {
	if base == 0 {
		base = 20
	}
	if factor == 0 {
		factor = 2
	}
	if cap == 0 {
		cap = 180000
	}
	v := new(big.Int).Exp(big.NewInt(int64(factor)), big.NewInt(int64(n)), nil)
	v.Mul(v, big.NewInt(int64(base)))
	if v.Cmp(big.NewInt(int64(cap))) > 0 {
		return int64(cap)
	}
	return v.Int64()
}

func TestVerifReplay_C19(t *testing.T) {
	cases, fails := 0, 0
	report := func(f string, a ...interface{}) {
		fails++
		if fails <= 5 {
			fmt.Printf("REPLAY-FAIL: "+f+"\n", a...)
		}
	}
	ns := []int{0, 1, 2, 3, 5, 10, 13, 14, 31, 62, 63, 64, 100, 1000, 100000}
	if os.Getenv("VERIF_TIER") == "thorough" {
		for i := 15; i < 30; i++ {
			ns = append(ns, i)
		}
	}
	for _, base := range []int{0, 1, 20, 7} {
		for _, factor := range []int{0, 1, 2, 3} {
			for _, cap := range []int{0, 1, 50, 1000} {
				for _, n := range ns {
					for _, stored := range []int{0, 3} {
						cases++
						func() {
							defer func() {
								if r := recover(); r != nil {
									report("base=%d factor=%d cap=%d attempt=%d stored=%d panics: %v", base, factor, cap, n, stored, r)
								}
							}()
							want := time.Duration(c19oracle(base, factor, cap, n)) * time.Millisecond
							b := backoff{NoJitter: true, Base: base, Factor: factor, Cap: cap, attempt: stored}
							if got := b.durationForAttempt(n); got != want {
								report("backoff{NoJitter:true,Base:%d,Factor:%d,Cap:%d,attempt:%d}.durationForAttempt(%d) = %v, want %v", base, factor, cap, stored, n, got, want)
							}
							bj := backoff{Base: base, Factor: factor, Cap: cap, attempt: stored}
							for k := 0; k < 3; k++ {
								if got := bj.durationForAttempt(n); got < 0 || got >= want {
									report("jitter: backoff{Base:%d,Factor:%d,Cap:%d,attempt:%d}.durationForAttempt(%d) = %v, not in [0,%v)", base, factor, cap, stored, n, got, want)
								}
							}
						}()
					}
				}
				// stateful sequence
				cases++
				b := backoff{NoJitter: true, Base: base, Factor: factor, Cap: cap}
				prev := time.Duration(-1)
				for i := 0; i < 40; i++ {
					want := time.Duration(c19oracle(base, factor, cap, i)) * time.Millisecond
					got := b.duration()
					if got != want || got < prev {
						report("sequence base=%d factor=%d cap=%d: wait #%d = %v, want %v (previous %v)", base, factor, cap, i, got, want, prev)
						break
					}
					prev = got
				}
			}
		}
	}
	fmt.Printf("REPLAY-CASES: %d\n", cases)
}
