package xmpp

// Replay / bounded contract-execution sweep for C10 (injected with go test -overlay).
//  (1) SendMissingStz on queues of 0..4 held stanzas and every h in -1..6, with a recording Sender that behaves like
//      a Client (SendRaw re-queues), against the reference "drop ids <= h, resend the rest in order, then one <r/>";
//      the two open known findings are reported with tags.
//  (2) Client.Send / SendRaw over a recording transport: held iff stream management is on and the packet is a stanza.

import (
	"context"
	"time"
	"encoding/xml"
	"fmt"
	"io"
	"strings"
	"testing"

	"gosrc.io/xmpp/stanza"
)

type c10sender struct {
	q    *stanza.UnAckQueue
	raw  []string
	sent []stanza.Packet
	failAt int
}

func (s *c10sender) Send(p stanza.Packet) error { s.sent = append(s.sent, p); return nil }
func (s *c10sender) SendIQ(context.Context, *stanza.IQ) (chan stanza.IQ, error) { return nil, nil }
func (s *c10sender) SendRaw(x string) error {
	if s.failAt > 0 && len(s.raw)+1 == s.failAt {
		return io.ErrClosedPipe
	}
	s.raw = append(s.raw, x)
	s.q.Push(&stanza.UnAckedStz{Stz: x})
	return nil
}

type c10transport struct {
	w    []string
	fail bool
}

func (t *c10transport) Connect() (string, error)     { return "", nil }
func (t *c10transport) DoesStartTLS() bool           { return false }
func (t *c10transport) StartTLS() error              { return nil }
func (t *c10transport) LogTraffic(io.Writer)         {}
func (t *c10transport) StartStream() (string, error) { return "", nil }
func (t *c10transport) GetDecoder() *xml.Decoder     { return nil }
func (t *c10transport) IsSecure() bool               { return true }
func (t *c10transport) Ping() error                  { return nil }
func (t *c10transport) Read(p []byte) (int, error)   { return 0, io.EOF }
func (t *c10transport) Close() error                 { return nil }
func (t *c10transport) ReceivedStreamClose()         {}
func (t *c10transport) Write(p []byte) (int, error) {
	if t.fail {
		return 0, io.ErrClosedPipe
	}
	t.w = append(t.w, string(p))
	return len(p), nil
}

func TestVerifReplay_C10(t *testing.T) {
	cases, fails := 0, 0
	report := func(tag, f string, a ...interface{}) {
		fails++
		if fails <= 12 {
			if tag != "" {
				fmt.Printf("REPLAY-FAIL["+tag+"]: "+f+"\n", a...)
			} else {
				fmt.Printf("REPLAY-FAIL: "+f+"\n", a...)
			}
		}
	}
	for n := 0; n <= 4; n++ {
		for h := -1; h <= 6; h++ {
			cases++
			q := stanza.NewUnAckQueue()
			var stz []string
			for i := 1; i <= n; i++ {
				x := fmt.Sprintf("<message id='%d'/>", i)
				stz = append(stz, x)
				q.Push(&stanza.UnAckedStz{Stz: x})
			}
			snd := &c10sender{q: q}
			var err error
			func() {
				defer func() {
					if r := recover(); r != nil {
						report("", "held=%d h=%d: panic %v", n, h, r)
					}
				}()
				err = SendMissingStz(h, snd, q)
			}()
			k := h
			if k < 0 {
				k = 0
			}
			if k > n {
				k = n
			}
			wantResent := stz[k:]
			desc := fmt.Sprintf("held ids 1..%d, ack h=%d", n, h)
			if err != nil {
				report("", "%s: error %v", desc, err)
			}
			if strings.Join(snd.raw, "|") != strings.Join(wantResent, "|") {
				report("C10.ack.resent", "%s: retransmitted %v, reference %v", desc, snd.raw, wantResent)
			}
			var held []string
			for _, e := range q.Uslice {
				held = append(held, e.Stz)
			}
			if strings.Join(held, "|") != strings.Join(wantResent, "|") {
				report("C10.ack.dropped", "%s: still held afterwards %v, reference %v", desc, held, wantResent)
			}
			wantReq := 0
			if len(wantResent) > 0 {
				wantReq = 1
			}
			nreq := 0
			for _, p := range snd.sent {
				if _, ok := p.(stanza.SMRequest); ok {
					nreq++
				} else {
					report("", "%s: unexpected packet sent %T", desc, p)
				}
			}
			if nreq != wantReq && len(snd.raw) == len(wantResent) {
				report("", "%s: %d acknowledgement requests, reference %d", desc, nreq, wantReq)
			}
			// the mutex must be free again
			locked := make(chan bool, 1)
			go func() { q.Lock(); q.Unlock(); locked <- false }()
			select {
			case <-locked:
			case <-timeAfterC10():
				report("", "%s: queue mutex left locked", desc)
			}
		}
	}
	// failing retransmission: the lock must be released
	{
		cases++
		q := stanza.NewUnAckQueue()
		q.Push(&stanza.UnAckedStz{Stz: "a"})
		q.Push(&stanza.UnAckedStz{Stz: "b"})
		snd := &c10sender{q: q, failAt: 1}
		err := SendMissingStz(0, snd, q)
		done := make(chan bool, 1)
		go func() { q.Lock(); q.Unlock(); done <- true }()
		select {
		case <-done:
		case <-timeAfterC10():
			report("", "failed retransmission (err=%v): queue mutex left locked", err)
		}
	}
	// (2) Send / SendRaw
	packets := []stanza.Packet{stanza.Message{Attrs: stanza.Attrs{Id: "m"}}, stanza.Presence{}, &stanza.IQ{Attrs: stanza.Attrs{Type: "get", Id: "i"}}, stanza.SMRequest{}, stanza.SMAnswer{H: 3}}
	for _, sm := range []bool{true, false} {
		for _, failW := range []bool{false, true} {
			for pi, p := range packets {
				cases++
				tr := &c10transport{fail: failW}
				c := &Client{config: &Config{StreamManagementEnable: sm}, transport: tr}
				c.Session = &Session{}
				c.Session.SMState.UnAckQueue = stanza.NewUnAckQueue()
				err := c.Send(p)
				data, _ := xml.Marshal(p)
				_, isReq := p.(stanza.SMRequest)
				_, isAns := p.(stanza.SMAnswer)
				wantHeld := 0
				if sm && !isReq && !isAns {
					wantHeld = 1
				}
				q := c.Session.SMState.UnAckQueue
				if len(q.Uslice) != wantHeld || (wantHeld == 1 && q.Uslice[0].Stz != string(data)) {
					report("", "Send(packet #%d %T) sm=%v: %d held, reference %d", pi, p, sm, len(q.Uslice), wantHeld)
				}
				if failW != (err != nil) {
					report("", "Send(packet #%d) writeFails=%v: err=%v", pi, failW, err)
				}
				if !failW && (len(tr.w) != 1 || tr.w[0] != string(data)) {
					report("", "Send(packet #%d): wrote %v, want exactly %q once", pi, tr.w, data)
				}
			}
			cases++
			tr := &c10transport{fail: failW}
			c := &Client{config: &Config{StreamManagementEnable: sm}, transport: tr}
			c.Session = &Session{}
			c.Session.SMState.UnAckQueue = stanza.NewUnAckQueue()
			err := c.SendRaw("<x/>")
			wantHeld := 0
			if sm {
				wantHeld = 1
			}
			if len(c.Session.SMState.UnAckQueue.Uslice) != wantHeld || failW != (err != nil) || (!failW && (len(tr.w) != 1 || tr.w[0] != "<x/>")) {
				report("", "SendRaw sm=%v writeFails=%v: held=%d err=%v wrote=%v", sm, failW, len(c.Session.SMState.UnAckQueue.Uslice), err, tr.w)
			}
		}
	}
	fmt.Printf("REPLAY-CASES: %d\n", cases)
}

func timeAfterC10() <-chan time.Time { return time.After(300 * time.Millisecond) }
