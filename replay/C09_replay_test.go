package xmpp

// Replay / bounded contract-execution sweep for C09 (injected with go test -overlay): the real receive loop over a
// scripted transport for every sequence over {message, presence, iq, <r/>, <a/>, features, sasl-success} up to a
// bound; every answer to an <r/> must carry h = number of stanzas received before it.

import (
	"encoding/xml"
	"fmt"
	"io"
	"os"
	"regexp"
	"strings"
	"sync"
	"testing"
)

type c09transport struct {
	d  *xml.Decoder
	mu sync.Mutex
	w  []string
}

func (t *c09transport) Connect() (string, error)      { return "", nil }
func (t *c09transport) DoesStartTLS() bool            { return false }
func (t *c09transport) StartTLS() error               { return nil }
func (t *c09transport) LogTraffic(io.Writer)          {}
func (t *c09transport) StartStream() (string, error)  { return "", nil }
func (t *c09transport) GetDecoder() *xml.Decoder      { return t.d }
func (t *c09transport) IsSecure() bool                { return true }
func (t *c09transport) Ping() error                   { return nil }
func (t *c09transport) Read(p []byte) (int, error)    { return 0, io.EOF }
func (t *c09transport) Close() error                  { return nil }
func (t *c09transport) ReceivedStreamClose()          {}
func (t *c09transport) Write(p []byte) (int, error) {
	t.mu.Lock()
	defer t.mu.Unlock()
	t.w = append(t.w, string(p))
	return len(p), nil
}

var c09elems = []struct {
	xml    string
	stanza bool
}{
	{"<message xmlns='jabber:client'><body>x</body></message>", true},
	{"<presence xmlns='jabber:client'/>", true},
	{"<iq xmlns='jabber:client' type='result' id='q'/>", true},
	{"<r xmlns='urn:xmpp:sm:3'/>", false},
	{"<a xmlns='urn:xmpp:sm:3' h='1'/>", false},
	{"<stream:features xmlns:stream='http://etherx.jabber.org/streams'/>", false},
	{"<success xmlns='urn:ietf:params:xml:ns:xmpp-sasl'/>", false},
}

func TestVerifReplay_C09(t *testing.T) {
	maxLen := 4
	if os.Getenv("VERIF_TIER") == "thorough" {
		maxLen = 5
	}
	re := regexp.MustCompile(`<a [^>]*h="(\d+)"`)
	cases, fails := 0, 0
	var rec func(seq []int)
	rec = func(seq []int) {
		if fails >= 4 {
			return
		}
		if len(seq) > 0 {
			cases++
			var sb strings.Builder
			var want []string
			n := 0
			for _, k := range seq {
				sb.WriteString(c09elems[k].xml)
				if c09elems[k].stanza {
					n++
				}
				if k == 3 {
					want = append(want, fmt.Sprint(n))
				}
			}
			tr := &c09transport{d: xml.NewDecoder(strings.NewReader(sb.String()))}
			c := &Client{config: &Config{}, transport: tr, router: NewRouter(), ErrorHandler: func(error) {}}
			c.Session = &Session{transport: tr}
			quit := make(chan struct{})
			func() {
				defer func() {
					if r := recover(); r != nil {
						fails++
						fmt.Printf("REPLAY-FAIL: inbound sequence %v: panic %v\n", seq, r)
					}
				}()
				c.recv(quit)
			}()
			tr.mu.Lock()
			var got []string
			for _, w := range tr.w {
				if m := re.FindStringSubmatch(w); m != nil {
					got = append(got, m[1])
				}
			}
			tr.mu.Unlock()
			if strings.Join(got, ",") != strings.Join(want, ",") || int(c.Session.SMState.Inbound) != n {
				fails++
				fmt.Printf("REPLAY-FAIL: inbound sequence %v (0 message,1 presence,2 iq,3 <r/>,4 <a/>,5 features,6 sasl success): answered h=%v final count=%d, want h=%v count=%d\n", seq, got, c.Session.SMState.Inbound, want, n)
			}
		}
		if len(seq) == maxLen {
			return
		}
		for k := range c09elems {
			rec(append(append([]int{}, seq...), k))
		}
	}
	rec(nil)
	fmt.Printf("REPLAY-CASES: %d\n", cases)
}
