package stanza

// Replay / bounded contract-execution sweep for C17, injected into the real package by govc
// (go test -overlay). It runs the real queue against a reference FIFO and evaluates the same
// postconditions the contracts state. Output protocol: "REPLAY-FAIL: <input>", "REPLAY-CASES: <n>".

import (
	"fmt"
	"os"
	"testing"
)

type c17ref struct {
	ids  []int
	stz  []string
	ptrs []*UnAckedStz
}

func c17check(q *UnAckQueue, r *c17ref) string {
	if len(q.Uslice) != len(r.ids) {
		return fmt.Sprintf("length %d, reference %d", len(q.Uslice), len(r.ids))
	}
	for i, e := range q.Uslice {
		if e == nil {
			return fmt.Sprintf("nil element at %d", i)
		}
		if e.Id != r.ids[i] || e.Stz != r.stz[i] {
			return fmt.Sprintf("element %d is (%d,%q), reference (%d,%q)", i, e.Id, e.Stz, r.ids[i], r.stz[i])
		}
		if i > 0 && q.Uslice[i-1].Id >= e.Id {
			return fmt.Sprintf("ids not increasing at %d", i)
		}
	}
	return ""
}

func c17min(a, b int) int {
	if a < b {
		return a
	}
	return b
}

// c17run executes one operation sequence; ops: 0 push, 1 pop, 2 peek, 3 empty, 4 push-incompatible, 10+k popN(k-2), 20+k peekN(k-2)
func c17run(ops []int) string {
	q := NewUnAckQueue()
	ref := &c17ref{}
	n := 0
	for step, op := range ops {
		desc := fmt.Sprintf("ops=%v step=%d", ops, step)
		switch {
		case op == 0:
			n++
			s := fmt.Sprintf("s%d", n)
			err := q.Push(&UnAckedStz{Id: 99, Stz: s})
			if err != nil {
				return desc + ": push returned error"
			}
			id := 1
			if len(ref.ids) > 0 {
				id = ref.ids[len(ref.ids)-1] + 1
			}
			ref.ids = append(ref.ids, id)
			ref.stz = append(ref.stz, s)
		case op == 4:
			if err := q.Push(c17other{}); err == nil {
				return desc + ": incompatible element accepted"
			}
		case op == 1:
			got := q.Pop()
			if len(ref.ids) == 0 {
				if got != nil {
					return desc + ": pop on empty returned non-nil"
				}
			} else {
				g, ok := got.(*UnAckedStz)
				if !ok || g == nil || g.Id != ref.ids[0] || g.Stz != ref.stz[0] {
					return desc + fmt.Sprintf(": pop returned %v, reference (%d,%q)", got, ref.ids[0], ref.stz[0])
				}
				ref.ids, ref.stz = ref.ids[1:], ref.stz[1:]
			}
		case op == 2:
			got := q.Peek()
			if len(ref.ids) == 0 {
				if got != nil {
					return desc + ": peek on empty returned non-nil"
				}
			} else {
				g, ok := got.(*UnAckedStz)
				if !ok || g == nil || g.Id != ref.ids[0] || g.Stz != ref.stz[0] {
					return desc + ": peek returned wrong element"
				}
			}
		case op == 3:
			if q.Empty() != (len(ref.ids) == 0) {
				return desc + ": Empty() wrong"
			}
		case op >= 10 && op < 30:
			k := op%10 - 2
			pop := op < 20
			var got []Queueable
			if pop {
				got = q.PopN(k)
			} else {
				got = q.PeekN(k)
			}
			want := 0
			if k > 0 {
				want = c17min(k, len(ref.ids))
			}
			if len(got) != want || (want == 0 && got != nil) {
				return desc + fmt.Sprintf(": N-op(%d) returned %d elements, reference %d", k, len(got), want)
			}
			for i := 0; i < want; i++ {
				g, ok := got[i].(*UnAckedStz)
				if !ok || g == nil || g.Id != ref.ids[i] || g.Stz != ref.stz[i] {
					return desc + fmt.Sprintf(": N-op(%d) element %d wrong", k, i)
				}
			}
			if pop {
				ref.ids, ref.stz = ref.ids[want:], ref.stz[want:]
			}
		}
		if m := c17check(q, ref); m != "" {
			return desc + ": " + m
		}
	}
	return ""
}

type c17other struct{}

func (c17other) QueueableName() string { return "other" }

func TestVerifReplay_C17(t *testing.T) {
	alphabet := []int{0, 1, 2, 3, 4, 10, 11, 12, 13, 14, 15, 20, 21, 22, 23, 24, 25}
	maxLen := 4
	if os.Getenv("VERIF_TIER") == "thorough" {
		maxLen = 5
	}
	cases, fails := 0, 0
	var rec func(prefix []int)
	rec = func(prefix []int) {
		if fails >= 3 {
			return
		}
		if len(prefix) > 0 {
			cases++
			func() {
				defer func() {
					if r := recover(); r != nil {
						fails++
						fmt.Printf("REPLAY-FAIL: ops=%v panics: %v\n", prefix, r)
					}
				}()
				if m := c17run(prefix); m != "" {
					fails++
					fmt.Printf("REPLAY-FAIL: %s\n", m)
				}
			}()
		}
		if len(prefix) == maxLen {
			return
		}
		for _, a := range alphabet {
			rec(append(append([]int{}, prefix...), a))
		}
	}
	rec(nil)
	fmt.Printf("REPLAY-CASES: %d\n", cases)
}
