package xmpp

// Replay / bounded contract-execution sweep for C05 (injected with go test -overlay): the real receive loops of
// client and component over a scripted decoder for every sequence of inbound elements up to a bound; a catch-all
// route counts what reaches the router. Plus the io.Reader behaviour of the websocket transport for frames larger
// than the caller's buffer.

import (
	"context"
	"encoding/xml"
	"fmt"
	"io"
	"net/http"
	"net/http/httptest"
	"os"
	"strings"
	"sync"
	"testing"
	"time"

	"gosrc.io/xmpp/stanza"
	"nhooyr.io/websocket"
)

type c05failingLog struct{ ok int }

func (l *c05failingLog) Write(p []byte) (int, error) {
	if l.ok > 0 {
		l.ok--
		return len(p), nil
	}
	return 0, io.ErrClosedPipe
}

// c05loggerRead: a stanza that was completely taken from the socket is still delivered when the traffic log cannot be
// written (the log file fails at its k-th write).
func c05loggerRead(k int) string {
	in := `<message xmlns="jabber:client" id="l1"><body>logged</body></message>`
	rw := newStreamLogger(struct {
		io.Reader
		io.Writer
	}{io.MultiReader(strings.NewReader("<stream:stream xmlns='jabber:client' xmlns:stream='http://etherx.jabber.org/streams' id='x'>"), strings.NewReader(in)), io.Discard}, &c05failingLog{ok: k})
	d := xml.NewDecoder(rw)
	if _, err := stanza.InitStream(d); err != nil {
		return "" // the failure hit the stream header: nothing was complete yet
	}
	p, err := stanza.NextPacket(d)
	if err != nil {
		return fmt.Sprintf("traffic log fails at write %d: the stanza read from the socket is lost (%v)", k+1, err)
	}
	if m, ok := p.(stanza.Message); !ok || m.Id != "l1" {
		return fmt.Sprintf("traffic log fails at write %d: got %T", k+1, p)
	}
	return ""
}

// c05wsFragments: the real websocket transport against a real websocket server that sends each stanza as ONE message
// cut into the given number of frames; every stanza must come out of NextPacket, in order.
func c05wsFragments(frames int) string {
	stanzas := []string{
		`<message xmlns="jabber:client" id="w1"><body>` + strings.Repeat("x", 40) + `</body></message>`,
		`<presence xmlns="jabber:client" id="w2"><status>s</status></presence>`,
		`<message xmlns="jabber:client" id="w3"><body>last</body></message>`,
	}
	srv := httptest.NewServer(http.HandlerFunc(func(w http.ResponseWriter, r *http.Request) {
		c, err := websocket.Accept(w, r, &websocket.AcceptOptions{Subprotocols: []string{"xmpp"}})
		if err != nil {
			return
		}
		ctx := context.Background()
		c.Read(ctx) // the client's <open/>
		c.Write(ctx, websocket.MessageText, []byte(`<open xmlns="urn:ietf:params:xml:ns:xmpp-framing" id="s1" version="1.0"/>`))
		for _, st := range stanzas {
			wr, err := c.Writer(ctx, websocket.MessageText)
			if err != nil {
				return
			}
			step := (len(st) + frames - 1) / frames
			for i := 0; i < len(st); i += step {
				j := i + step
				if j > len(st) {
					j = len(st)
				}
				wr.Write([]byte(st[i:j])) // one frame per Write
			}
			wr.Close()
		}
		time.Sleep(3 * time.Second)
		c.Close(websocket.StatusNormalClosure, "")
	}))
	defer srv.Close()
	tr := &WebsocketTransport{Config: TransportConfiguration{Address: "ws" + strings.TrimPrefix(srv.URL, "http"), Domain: "localhost", ConnectTimeout: 5}}
	if _, err := tr.Connect(); err != nil {
		return "websocket connect: " + err.Error()
	}
	defer tr.Close()
	got := make(chan string, 8)
	go func() {
		for {
			p, err := stanza.NextPacket(tr.GetDecoder())
			if err != nil {
				got <- "error: " + err.Error()
				return
			}
			switch x := p.(type) {
			case stanza.Message:
				got <- x.Id
			case stanza.Presence:
				got <- x.Id
			}
		}
	}()
	for _, want := range []string{"w1", "w2", "w3"} {
		select {
		case g := <-got:
			if g != want {
				return fmt.Sprintf("websocket messages in %d frame(s): got %q, want stanza %s", frames, g, want)
			}
		case <-time.After(2500 * time.Millisecond):
			return fmt.Sprintf("websocket messages in %d frame(s): stanza %s never reaches the decoder (the reader goroutine stopped)", frames, want)
		}
	}
	return ""
}

// c05wsLoss: the websocket server sends one stanza and then the connection goes away (close frame, or the TCP
// connection cut). The stanza must still come out, and then the decoder must get an error - not block for ever.
func c05wsLoss(abrupt bool) string {
	srv := httptest.NewServer(http.HandlerFunc(func(w http.ResponseWriter, r *http.Request) {
		c, err := websocket.Accept(w, r, &websocket.AcceptOptions{Subprotocols: []string{"xmpp"}})
		if err != nil {
			return
		}
		ctx := context.Background()
		c.Read(ctx) // the client's <open/>
		c.Write(ctx, websocket.MessageText, []byte(`<open xmlns="urn:ietf:params:xml:ns:xmpp-framing" id="s1" version="1.0"/>`))
		c.Write(ctx, websocket.MessageText, []byte(`<message xmlns="jabber:client" id="w1"><body>before the loss</body></message>`))
		time.Sleep(50 * time.Millisecond)
		if abrupt {
			c.Close(websocket.StatusInternalError, "") // the library sends the frame and drops the connection at once
		} else {
			c.Close(websocket.StatusNormalClosure, "")
		}
	}))
	defer srv.Close()
	tr := &WebsocketTransport{Config: TransportConfiguration{Address: "ws" + strings.TrimPrefix(srv.URL, "http"), Domain: "localhost", ConnectTimeout: 5}}
	if _, err := tr.Connect(); err != nil {
		return "websocket connect: " + err.Error()
	}
	defer tr.Close()
	got := make(chan string, 8)
	go func() {
		for {
			p, err := stanza.NextPacket(tr.GetDecoder())
			if err != nil {
				got <- "error"
				return
			}
			if x, ok := p.(stanza.Message); ok {
				got <- x.Id
			}
		}
	}()
	for _, want := range []string{"w1", "error"} {
		select {
		case g := <-got:
			if g != want {
				return fmt.Sprintf("websocket connection lost after one stanza (abrupt=%v): got %q, want %s", abrupt, g, want)
			}
		case <-time.After(2500 * time.Millisecond):
			return fmt.Sprintf("websocket connection lost after one stanza (abrupt=%v): the decoder never gets %s - reading blocks for ever, the loss is not noticed", abrupt, want)
		}
	}
	return ""
}

type c05transport struct {
	d  *xml.Decoder
	mu sync.Mutex
	w  []string
}

func (t *c05transport) Connect() (string, error)     { return "", nil }
func (t *c05transport) DoesStartTLS() bool           { return false }
func (t *c05transport) StartTLS() error              { return nil }
func (t *c05transport) LogTraffic(io.Writer)         {}
func (t *c05transport) StartStream() (string, error) { return "", nil }
func (t *c05transport) GetDecoder() *xml.Decoder     { return t.d }
func (t *c05transport) IsSecure() bool               { return true }
func (t *c05transport) Ping() error                  { return nil }
func (t *c05transport) Read(p []byte) (int, error)   { return 0, io.EOF }
func (t *c05transport) Close() error                 { return nil }
func (t *c05transport) ReceivedStreamClose()         {}
func (t *c05transport) Write(p []byte) (int, error) {
	t.mu.Lock()
	defer t.mu.Unlock()
	t.w = append(t.w, string(p))
	return len(p), nil
}

var c05elems = []struct {
	ns, xml string
	stanza  bool
}{
	{"", "<message xmlns='NS' id='IDX'><body>x</body></message>", true},
	{"", "<presence xmlns='NS' id='IDX'/>", true},
	{"", "<iq xmlns='NS' type='result' id='IDX'/>", true},
	{"", "<iq xmlns='NS' type='get' id='IDX'><query xmlns='jabber:iq:version'/></iq>", true},
	{"", "<r xmlns='urn:xmpp:sm:3'/>", false},
	{"", "<a xmlns='urn:xmpp:sm:3' h='1'/>", false},
}

func TestVerifReplay_C05(t *testing.T) {
	maxLen := 3
	if os.Getenv("VERIF_TIER") == "thorough" {
		maxLen = 4
	}
	cases, fails := 0, 0
	report := func(f string, a ...interface{}) {
		fails++
		if fails <= 6 {
			fmt.Printf("REPLAY-FAIL: "+f+"\n", a...)
		}
	}
	for _, comp := range []bool{false, true} {
		var rec func(seq []int)
		rec = func(seq []int) {
			if fails >= 6 {
				return
			}
			if len(seq) > 0 {
				cases++
				ns := "jabber:client"
				if comp {
					ns = "jabber:component:accept"
				}
				var sb strings.Builder
				var wantIDs []string
				nreq := 0
				for i, k := range seq {
					id := fmt.Sprintf("e%d", i)
					sb.WriteString(strings.Replace(strings.Replace(c05elems[k].xml, "NS", ns, 1), "IDX", id, 1))
					if c05elems[k].stanza {
						wantIDs = append(wantIDs, id)
					}
					if k == 4 {
						nreq++
					}
				}
				tr := &c05transport{d: xml.NewDecoder(strings.NewReader(sb.String()))}
				var mu sync.Mutex
				var got []string
				router := NewRouter()
				router.NewRoute().HandlerFunc(func(s Sender, p stanza.Packet) {
					mu.Lock()
					defer mu.Unlock()
					switch x := p.(type) {
					case stanza.Message:
						got = append(got, x.Id)
					case stanza.Presence:
						got = append(got, x.Id)
					case *stanza.IQ:
						got = append(got, x.Id)
					}
				})
				panicked := false
				func() {
					defer func() {
						if r := recover(); r != nil {
							panicked = true
							report("component=%v inbound %v: panic %v", comp, seq, r)
						}
					}()
					if comp {
						c := &Component{router: router, transport: tr, ErrorHandler: func(error) {}}
						c.recv()
					} else {
						c := &Client{config: &Config{}, transport: tr, router: router, ErrorHandler: func(error) {}}
						c.Session = &Session{transport: tr}
						c.recv(make(chan struct{}))
					}
				}()
				if panicked {
					return
				}
				// the client routes in goroutines: wait for them
				deadline := time.Now().Add(2 * time.Second)
				for {
					mu.Lock()
					n := len(got)
					mu.Unlock()
					if n >= len(wantIDs) || time.Now().After(deadline) {
						break
					}
					time.Sleep(time.Millisecond)
				}
				time.Sleep(2 * time.Millisecond)
				mu.Lock()
				g := append([]string{}, got...)
				mu.Unlock()
				if comp {
					if strings.Join(g, ",") != strings.Join(wantIDs, ",") {
						report("component inbound %v: routed %v, want %v in this order", seq, g, wantIDs)
					}
				} else {
					seen := map[string]int{}
					for _, id := range g {
						seen[id]++
					}
					ok := len(g) == len(wantIDs)
					for _, id := range wantIDs {
						if seen[id] != 1 {
							ok = false
						}
					}
					if !ok {
						report("client inbound %v: routed %v, want each of %v exactly once", seq, g, wantIDs)
					}
					tr.mu.Lock()
					na := 0
					for _, w := range tr.w {
						if strings.HasPrefix(w, "<a ") {
							na++
						}
					}
					tr.mu.Unlock()
					if na != nreq {
						report("client inbound %v: %d answers to %d acknowledgement requests", seq, na, nreq)
					}
				}
			}
			if len(seq) == maxLen {
				return
			}
			for k := range c05elems {
				if comp && k >= 4 {
					continue
				}
				rec(append(append([]int{}, seq...), k))
			}
		}
		rec(nil)
	}
	// websocket transport as io.Reader
	for _, frame := range []int{1, 4, 5, 10, 33} {
		for _, buf := range []int{1, 4, 8, 64} {
			cases++
			ctx, cancel := context.WithCancel(context.Background())
			ws := &WebsocketTransport{queue: make(chan []byte, 4), closeCtx: ctx}
			data := []byte(strings.Repeat("abcdefghij", 4)[:frame])
			ws.queue <- data
			ws.queue <- []byte("|")
			var out []byte
			bad := false
			for len(out) < frame+1 && !bad {
				p := make([]byte, buf)
				n, err := ws.Read(p)
				if err != nil || n < 0 || n > len(p) {
					report("WebsocketTransport.Read: %d-byte frame into a %d-byte buffer returned n=%d err=%v", frame, buf, n, err)
					bad = true
					break
				}
				out = append(out, p[:n]...)
			}
			if !bad && string(out) != string(data)+"|" {
				report("WebsocketTransport.Read: %d-byte frame through %d-byte reads delivered %q, want %q", frame, buf, out, string(data)+"|")
			}
			cancel()
		}
	}
	for k := 3; k < 7; k++ { // each Read makes three log writes; the stream header is the first Read, the stanza the second
		cases++
		if m := c05loggerRead(k); m != "" {
			report("%s", m)
		}
	}
	for _, abrupt := range []bool{false, true} {
		cases++
		if m := c05wsLoss(abrupt); m != "" {
			report("%s", m)
		}
	}
	for _, frames := range []int{1, 2, 5} {
		cases++
		if m := c05wsFragments(frames); m != "" {
			report("%s", m)
		}
	}
	fmt.Printf("REPLAY-CASES: %d\n", cases)
}
