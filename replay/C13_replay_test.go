package xmpp

// Replay / bounded contract-execution sweep for C13 (injected with go test -overlay): StreamManager.resume over a
// scripted StreamClient for every sequence of reconnect outcomes {ok, transient error, permanent error} up to a
// bound; PostConnect must run exactly once per established session, a permanent error ends the loop.

import (
	"context"
	"time"
	"errors"
	"fmt"
	"os"
	"testing"

	"gosrc.io/xmpp/stanza"
)

type c13client struct {
	script  []int // 0 ok, 1 transient, 2 permanent, 3 plain error
	resumes int
	discs   int
	handler EventHandler
}

func (c *c13client) Connect() error { return nil }
func (c *c13client) Resume() error {
	k := 0
	if c.resumes < len(c.script) {
		k = c.script[c.resumes]
	}
	c.resumes++
	switch k {
	case 1:
		return NewConnError(errors.New("refused"), false)
	case 2:
		return NewConnError(errors.New("bad credentials"), true)
	case 3:
		return errors.New("plain")
	}
	return nil
}
func (c *c13client) Send(stanza.Packet) error                                       { return nil }
func (c *c13client) SendIQ(context.Context, *stanza.IQ) (chan stanza.IQ, error)     { return nil, nil }
func (c *c13client) SendRaw(string) error                                           { return nil }
func (c *c13client) Disconnect() error                                              { c.discs++; return nil }
func (c *c13client) SetHandler(h EventHandler)                                      { c.handler = h }

func TestVerifReplay_C13(t *testing.T) {
	maxLen := 3
	if os.Getenv("VERIF_TIER") == "thorough" {
		maxLen = 4
	}
	cases, fails := 0, 0
	report := func(f string, a ...interface{}) {
		fails++
		if fails <= 6 {
			fmt.Printf("REPLAY-FAIL: "+f+"\n", a...)
		}
	}
	var rec func(prefix []int)
	rec = func(prefix []int) {
		if len(prefix) > 0 {
			last := prefix[len(prefix)-1]
			if last == 0 || last == 2 {
				cases++
				cl := &c13client{script: prefix}
				posts := 0
				sm := NewStreamManager(cl, func(Sender) { posts++ })
				err := sm.resume()
				if last == 0 && (err != nil || posts != 1 || cl.resumes != len(prefix)) {
					report("reconnect outcomes %v (0 ok,1 transient,2 permanent,3 plain error): err=%v PostConnect ran %d times after %d attempts; want nil, once, %d", prefix, err, posts, cl.resumes, len(prefix))
				}
				if last == 2 && (err == nil || posts != 0 || cl.resumes != len(prefix)) {
					report("reconnect outcomes %v: err=%v PostConnect ran %d times after %d attempts; want an error, never, %d attempts", prefix, err, posts, cl.resumes, len(prefix))
				}
				return
			}
		}
		if len(prefix) == maxLen {
			return
		}
		for _, k := range []int{0, 1, 2, 3} {
			rec(append(append([]int{}, prefix...), k))
		}
	}
	rec(nil)
	// the event handler installed by Run
	for _, ev := range []struct {
		state       ConnState
		streamError string
		wantResume  int
		wantDisc    int
	}{
		{StateDisconnected, "", 1, 0},
		{StateStreamError, "system-shutdown", 1, 1},
		{StateStreamError, "conflict", 0, 1},
		{StatePermanentError, "", 0, 0},
		{StateSessionEstablished, "", 0, 0},
	} {
		cases++
		cl := &c13client{}
		sm := NewStreamManager(cl, nil)
		sm.Metrics = initMetrics()
		go func() { defer func() { recover() }(); sm.Run() }()
		for i := 0; i < 1000 && cl.handler == nil; i++ {
			sleepC13()
		}
		if cl.handler == nil {
			report("Run installed no handler")
			continue
		}
		e := Event{StreamError: ev.streamError}
		e.State.state = ev.state
		cl.handler(e)
		if cl.resumes != ev.wantResume || cl.discs != ev.wantDisc {
			report("event state=%d streamError=%q: %d reconnects, %d disconnects; want %d, %d", ev.state, ev.streamError, cl.resumes, cl.discs, ev.wantResume, ev.wantDisc)
		}
	}
	fmt.Printf("REPLAY-CASES: %d\n", cases)
}

func sleepC13() { time.Sleep(time.Millisecond) }
