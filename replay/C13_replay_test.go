package xmpp

// Replay / bounded contract-execution sweep for C13 (injected with go test -overlay): StreamManager.resume over a
// scripted StreamClient for every sequence of reconnect outcomes {ok, transient error, permanent error} up to a
// bound; PostConnect must run exactly once per established session, a permanent error ends the loop.

import (
	"net"
	"context"
	"errors"
	"fmt"
	"os"
	"sync"
	"sync/atomic"
	"testing"
	"time"

	"gosrc.io/xmpp/stanza"
)

type c13client struct {
	script  []int // 0 ok, 1 transient, 2 permanent, 3 plain error
	resumes int
	discs   int
	handler EventHandler
}

func (c *c13client) Connect() error { return nil }
func (c *c13client) Resume() error {
	k := 0
	if c.resumes < len(c.script) {
		k = c.script[c.resumes]
	}
	c.resumes++
	switch k {
	case 1:
		return NewConnError(errors.New("refused"), false)
	case 2:
		return NewConnError(errors.New("bad credentials"), true)
	case 3:
		return errors.New("plain")
	}
	return nil
}
func (c *c13client) Send(stanza.Packet) error                                       { return nil }
func (c *c13client) SendIQ(context.Context, *stanza.IQ) (chan stanza.IQ, error)     { return nil, nil }
func (c *c13client) SendRaw(string) error                                           { return nil }
func (c *c13client) Disconnect() error                                              { c.discs++; return nil }
func (c *c13client) SetHandler(h EventHandler)                                      { c.handler = h }

func TestVerifReplay_C13(t *testing.T) {
	maxLen := 3
	if os.Getenv("VERIF_TIER") == "thorough" {
		maxLen = 4
	}
	cases, fails := 0, 0
	report := func(f string, a ...interface{}) {
		fails++
		if fails <= 6 {
			fmt.Printf("REPLAY-FAIL: "+f+"\n", a...)
		}
	}
	var rec func(prefix []int)
	rec = func(prefix []int) {
		if len(prefix) > 0 {
			last := prefix[len(prefix)-1]
			if last == 0 || last == 2 {
				cases++
				cl := &c13client{script: prefix}
				posts := 0
				sm := NewStreamManager(cl, func(Sender) { posts++ })
				err := sm.resume()
				if last == 0 && (err != nil || posts != 1 || cl.resumes != len(prefix)) {
					report("reconnect outcomes %v (0 ok,1 transient,2 permanent,3 plain error): err=%v PostConnect ran %d times after %d attempts; want nil, once, %d", prefix, err, posts, cl.resumes, len(prefix))
				}
				if last == 2 && (err == nil || posts != 0 || cl.resumes != len(prefix)) {
					report("reconnect outcomes %v: err=%v PostConnect ran %d times after %d attempts; want an error, never, %d attempts", prefix, err, posts, cl.resumes, len(prefix))
				}
				return
			}
		}
		if len(prefix) == maxLen {
			return
		}
		for _, k := range []int{0, 1, 2, 3} {
			rec(append(append([]int{}, prefix...), k))
		}
	}
	rec(nil)
	// the event handler installed by Run
	for _, ev := range []struct {
		state       ConnState
		streamError string
		wantResume  int
		wantDisc    int
	}{
		{StateDisconnected, "", 1, 0},
		{StateStreamError, "system-shutdown", 1, 1},
		{StateStreamError, "conflict", 0, 1},
		{StatePermanentError, "", 0, 0},
		{StateSessionEstablished, "", 0, 0},
	} {
		cases++
		cl := &c13client{}
		sm := NewStreamManager(cl, nil)
		sm.Metrics = initMetrics()
		go func() { defer func() { recover() }(); sm.Run() }()
		for i := 0; i < 1000 && cl.handler == nil; i++ {
			sleepC13()
		}
		if cl.handler == nil {
			report("Run installed no handler")
			continue
		}
		e := Event{StreamError: ev.streamError}
		e.State.state = ev.state
		cl.handler(e)
		if cl.resumes != ev.wantResume || cl.discs != ev.wantDisc {
			report("event state=%d streamError=%q: %d reconnects, %d disconnects; want %d, %d", ev.state, ev.streamError, cl.resumes, cl.discs, ev.wantResume, ev.wantDisc)
		}
	}
	n, ifails := c13integrationAll(t)
	cases += n
	for _, m := range ifails {
		report("%s", m)
	}
	fmt.Printf("REPLAY-CASES: %d\n", cases)
}

func sleepC13() { time.Sleep(time.Millisecond) }

// c13integration runs the real Client under a real StreamManager against a scripted TCP server: session 1 is
// established and dropped abruptly; the first reconnect attempt meets the given fault; afterwards the server is healthy.
// (graceful: the server first sends its closing stream tag). Exactly one new session (one more PostConnect call) must
// follow. fault: 0 none, 1 hang-up before the stream opens
// (transport.Connect fails), 2 hang-up after the stream features (negotiation fails, no closing tag), 4 hang-up
// between the stream header and the features.
func c13integration(t *testing.T, fault int, graceful bool) string {
	var nconn int32
	sessions := make(chan *ServerConn, 16)
	mock := ServerMock{}
	mock.Start(t, "127.0.0.1:0", func(t *testing.T, sc *ServerConn) {
		n := atomic.AddInt32(&nconn, 1)
		if n == 2 && fault == 1 {
			sc.connection.Close()
			return
		}
		if n == 2 && fault == 4 {
			// the stream header, then the connection is cut before the features arrive
			checkClientOpenStream(t, sc)
			sc.connection.Close()
			return
		}
		if n == 2 && fault == 2 {
			checkClientOpenStream(t, sc)
			sendStreamFeatures(t, sc)
			sc.connection.Close()
			return
		}
		checkClientOpenStream(t, sc)
		sendStreamFeatures(t, sc)
		readAuth(t, sc.decoder)
		sc.connection.Write([]byte("<success xmlns=\"urn:ietf:params:xml:ns:xmpp-sasl\"/>"))
		checkClientOpenStream(t, sc)
		sendBindFeature(t, sc)
		bind(t, sc)
		sessions <- sc
	})
	if mock.listener == nil {
		return "scripted server cannot listen"
	}
	defer mock.Stop()
	config := Config{
		TransportConfiguration: TransportConfiguration{Address: mock.listener.Addr().String()},
		Jid:                    "test@localhost",
		Credential:             Password("test"),
		Insecure:               true,
		ConnectTimeout:         1,
	}
	client, err := NewClient(&config, NewRouter(), func(error) {})
	if err != nil {
		return "cannot create client: " + err.Error()
	}
	var postConnect int32
	sman := NewStreamManager(client, func(Sender) { atomic.AddInt32(&postConnect, 1) })
	go sman.Run()
	var sc1 *ServerConn
	select {
	case sc1 = <-sessions:
	case <-time.After(10 * time.Second):
		return "first session never established"
	}
	for i := 0; i < 2000 && atomic.LoadInt32(&postConnect) < 1; i++ {
		sleepC13()
	}
	if graceful {
		// the server ends the stream itself: closing tag, then the socket
		sc1.connection.Write([]byte("</stream:stream>"))
		time.Sleep(30 * time.Millisecond)
	}
	sc1.connection.Close() // (abrupt loss of the established connection when there was no closing tag)
	select {
	case <-sessions:
	case <-time.After(15 * time.Second):
		return fmt.Sprintf("fault %d on the first reconnect attempt: no session re-established after the loss (server saw %d connections)", fault, atomic.LoadInt32(&nconn))
	}
	extra := 0
	deadline := time.After(1500 * time.Millisecond)
collect:
	for {
		select {
		case <-sessions:
			extra++
		case <-deadline:
			break collect
		}
	}
	if extra != 0 || atomic.LoadInt32(&postConnect) != 2 {
		return fmt.Sprintf("fault %d on the first reconnect attempt: %d additional session(s) for one connection loss, PostConnect ran %d times for 2 sessions (server saw %d connections)", fault, extra, atomic.LoadInt32(&postConnect), atomic.LoadInt32(&nconn))
	}
	return ""
}

func c13integrationAll(t *testing.T) (cases int, fails []string) {
	var mu sync.Mutex
	var wg sync.WaitGroup
	for _, graceful := range []bool{false, true} {
		for _, f := range []int{0, 1, 2, 4} {
			cases++
			wg.Add(1)
			go func(f int, graceful bool) {
				defer wg.Done()
				if m := c13integration(t, f, graceful); m != "" {
					if graceful {
						m = "server closes the stream gracefully; " + m
					}
					mu.Lock()
					fails = append(fails, m)
					mu.Unlock()
				}
			}(f, graceful)
		}
	}
	cases++
	wg.Add(1)
	go func() {
		defer wg.Done()
		if m := c13refused(t); m != "" {
			mu.Lock()
			fails = append(fails, m)
			mu.Unlock()
		}
	}()
	cases++
	wg.Add(1)
	go func() {
		defer wg.Done()
		if m := c13streamError(t); m != "" {
			mu.Lock()
			fails = append(fails, m)
			mu.Unlock()
		}
	}()
	cases++
	wg.Add(1)
	go func() {
		defer wg.Done()
		if m := c13oldKeepalive(t); m != "" {
			mu.Lock()
			fails = append(fails, m)
			mu.Unlock()
		}
	}()
	wg.Wait()
	return
}

// c13oldKeepalive: keepalive interval 50 ms; the server goes down for 500 ms (connection lost, port refusing) and
// comes back. While the StreamManager's handler is reconnecting, nothing of the old connection may touch the
// transport: no panic (Ping on a transport whose dial has just failed), and the new connection stays up - only
// keepalive newlines arrive on it, it is not closed, there is no third session.
func c13oldKeepalive(t *testing.T) string {
	sessions := make(chan *ServerConn, 16)
	h := func(t *testing.T, sc *ServerConn) {
		checkClientOpenStream(t, sc)
		sendStreamFeatures(t, sc)
		readAuth(t, sc.decoder)
		sc.connection.Write([]byte("<success xmlns=\"urn:ietf:params:xml:ns:xmpp-sasl\"/>"))
		checkClientOpenStream(t, sc)
		sendBindFeature(t, sc)
		bind(t, sc)
		sessions <- sc
	}
	mock := ServerMock{}
	mock.Start(t, "127.0.0.1:0", h)
	if mock.listener == nil {
		return "scripted server cannot listen"
	}
	addr := mock.listener.Addr().String()
	config := Config{
		TransportConfiguration: TransportConfiguration{Address: addr},
		Jid:                    "test@localhost",
		Credential:             Password("test"),
		Insecure:               true,
		ConnectTimeout:         2,
		KeepaliveInterval:      50 * time.Millisecond,
	}
	client, err := NewClient(&config, NewRouter(), func(error) {})
	if err != nil {
		mock.Stop()
		return "cannot create client: " + err.Error()
	}
	var postConnect int32
	sman := NewStreamManager(client, func(Sender) { atomic.AddInt32(&postConnect, 1) })
	go sman.Run()
	select {
	case <-sessions:
	case <-time.After(10 * time.Second):
		mock.Stop()
		return "first session never established"
	}
	time.Sleep(120 * time.Millisecond)
	mock.Stop()
	time.Sleep(500 * time.Millisecond)
	l2, err := net.Listen("tcp", addr)
	if err != nil {
		return ""
	}
	mock2 := ServerMock{t: t, handler: h, listener: l2, done: make(chan struct{})}
	go mock2.loop()
	defer mock2.Stop()
	var sc2 *ServerConn
	select {
	case sc2 = <-sessions:
	case <-time.After(15 * time.Second):
		return "keepalive 50 ms, server down 500 ms: no session re-established"
	}
	deadline := time.Now().Add(3 * time.Second)
	buf := make([]byte, 256)
	for time.Now().Before(deadline) {
		sc2.connection.SetReadDeadline(deadline)
		n, rerr := sc2.connection.Read(buf)
		for _, b := range buf[:n] {
			if b != '\n' {
				return fmt.Sprintf("keepalive 50 ms, server down 500 ms: the client wrote %q on the new connection", buf[:n])
			}
		}
		if rerr != nil {
			if ne, ok := rerr.(interface{ Timeout() bool }); ok && ne.Timeout() {
				break
			}
			return fmt.Sprintf("keepalive 50 ms, server down 500 ms: the new connection was closed by the client %v after it was established (%v)", 3*time.Second-time.Until(deadline), rerr)
		}
	}
	select {
	case <-sessions:
		return fmt.Sprintf("keepalive 50 ms, server down 500 ms: a third session for one loss (PostConnect ran %d times)", atomic.LoadInt32(&postConnect))
	default:
	}
	return ""
}

// c13streamError: the server ends the session with <stream:error><system-shutdown/></stream:error></stream:stream>.
// Exactly one new session must follow, and nothing may be done to it by what is left of the old one: the server
// reads nothing on the new connection, it stays open, there is no third session.
func c13streamError(t *testing.T) string {
	sessions := make(chan *ServerConn, 16)
	var nconn int32
	mock := ServerMock{}
	mock.Start(t, "127.0.0.1:0", func(t *testing.T, sc *ServerConn) {
		atomic.AddInt32(&nconn, 1)
		checkClientOpenStream(t, sc)
		sendStreamFeatures(t, sc)
		readAuth(t, sc.decoder)
		sc.connection.Write([]byte("<success xmlns=\"urn:ietf:params:xml:ns:xmpp-sasl\"/>"))
		checkClientOpenStream(t, sc)
		sendBindFeature(t, sc)
		bind(t, sc)
		sessions <- sc
	})
	if mock.listener == nil {
		return "scripted server cannot listen"
	}
	defer mock.Stop()
	config := Config{
		TransportConfiguration: TransportConfiguration{Address: mock.listener.Addr().String()},
		Jid:                    "test@localhost",
		Credential:             Password("test"),
		Insecure:               true,
		ConnectTimeout:         1,
	}
	client, err := NewClient(&config, NewRouter(), func(error) {})
	if err != nil {
		return "cannot create client: " + err.Error()
	}
	var postConnect int32
	sman := NewStreamManager(client, func(Sender) { atomic.AddInt32(&postConnect, 1) })
	go sman.Run()
	var sc1 *ServerConn
	select {
	case sc1 = <-sessions:
	case <-time.After(10 * time.Second):
		return "first session never established"
	}
	for i := 0; i < 2000 && atomic.LoadInt32(&postConnect) < 1; i++ {
		sleepC13()
	}
	sc1.connection.Write([]byte("<stream:error><system-shutdown xmlns='urn:ietf:params:xml:ns:xmpp-streams'/></stream:error></stream:stream>"))
	time.Sleep(20 * time.Millisecond)
	sc1.connection.Close()
	var sc2 *ServerConn
	select {
	case sc2 = <-sessions:
	case <-time.After(15 * time.Second):
		return "stream error (system-shutdown): no session re-established"
	}
	buf := make([]byte, 256)
	sc2.connection.SetReadDeadline(time.Now().Add(2500 * time.Millisecond))
	n, rerr := sc2.connection.Read(buf)
	if n > 0 {
		return fmt.Sprintf("stream error (system-shutdown): after the reconnect the client wrote %q on the new connection", buf[:n])
	}
	if ne, ok := rerr.(interface{ Timeout() bool }); !ok || !ne.Timeout() {
		return fmt.Sprintf("stream error (system-shutdown): the new connection was closed by the client (%v)", rerr)
	}
	select {
	case <-sessions:
		return fmt.Sprintf("stream error (system-shutdown): a third session for one termination (server saw %d connections, PostConnect ran %d times)", atomic.LoadInt32(&nconn), atomic.LoadInt32(&postConnect))
	default:
	}
	if atomic.LoadInt32(&postConnect) != 2 {
		return fmt.Sprintf("stream error (system-shutdown): PostConnect ran %d times for 2 sessions", atomic.LoadInt32(&postConnect))
	}
	return ""
}

// c13refused: the server goes down (the established connection is lost and its port refuses connections for a while),
// then comes back on the same address: a new session must follow.
func c13refused(t *testing.T) string {
	sessions := make(chan *ServerConn, 16)
	h := func(t *testing.T, sc *ServerConn) {
		checkClientOpenStream(t, sc)
		sendStreamFeatures(t, sc)
		readAuth(t, sc.decoder)
		sc.connection.Write([]byte("<success xmlns=\"urn:ietf:params:xml:ns:xmpp-sasl\"/>"))
		checkClientOpenStream(t, sc)
		sendBindFeature(t, sc)
		bind(t, sc)
		sessions <- sc
	}
	mock := ServerMock{}
	mock.Start(t, "127.0.0.1:0", h)
	if mock.listener == nil {
		return "scripted server cannot listen"
	}
	addr := mock.listener.Addr().String()
	config := Config{
		TransportConfiguration: TransportConfiguration{Address: addr},
		Jid:                    "test@localhost",
		Credential:             Password("test"),
		Insecure:               true,
		ConnectTimeout:         1,
	}
	client, err := NewClient(&config, NewRouter(), func(error) {})
	if err != nil {
		mock.Stop()
		return "cannot create client: " + err.Error()
	}
	var postConnect int32
	sman := NewStreamManager(client, func(Sender) { atomic.AddInt32(&postConnect, 1) })
	go sman.Run()
	select {
	case <-sessions:
	case <-time.After(10 * time.Second):
		mock.Stop()
		return "first session never established"
	}
	for i := 0; i < 2000 && atomic.LoadInt32(&postConnect) < 1; i++ {
		sleepC13()
	}
	mock.Stop() // connection lost, port closed: connection attempts are refused
	time.Sleep(300 * time.Millisecond)
	l2, err := net.Listen("tcp", addr)
	if err != nil {
		return "" // the port was taken meanwhile: nothing can be concluded
	}
	mock2 := ServerMock{t: t, handler: h, listener: l2, done: make(chan struct{})}
	go mock2.loop()
	defer mock2.Stop()
	select {
	case <-sessions:
	case <-time.After(15 * time.Second):
		return fmt.Sprintf("server down for 300 ms (connection attempts refused), then back on the same address: no session re-established (PostConnect ran %d times)", atomic.LoadInt32(&postConnect))
	}
	return ""
}
