package xmpp

// Replay / bounded contract-execution sweep for C18 (injected with go test -overlay): the real keepalive loop over a
// stub transport with a short interval; a write failure at the k-th keepalive for several k; session end at any time.

import (
	"encoding/xml"
	"errors"
	"fmt"
	"io"
	"sync"
	"testing"
	"time"
)

type c18transport struct {
	mu     sync.Mutex
	pings  int
	closes int
	failAt int
}

func (t *c18transport) Connect() (string, error)     { return "", nil }
func (t *c18transport) DoesStartTLS() bool           { return false }
func (t *c18transport) StartTLS() error              { return nil }
func (t *c18transport) LogTraffic(io.Writer)         {}
func (t *c18transport) StartStream() (string, error) { return "", nil }
func (t *c18transport) GetDecoder() *xml.Decoder     { return nil }
func (t *c18transport) IsSecure() bool               { return true }
func (t *c18transport) Read(p []byte) (int, error)   { return 0, io.EOF }
func (t *c18transport) Write(p []byte) (int, error)  { return len(p), nil }
func (t *c18transport) ReceivedStreamClose()         {}
func (t *c18transport) Ping() error {
	t.mu.Lock()
	defer t.mu.Unlock()
	t.pings++
	if t.failAt > 0 && t.pings == t.failAt {
		return errors.New("broken pipe")
	}
	return nil
}
func (t *c18transport) Close() error {
	t.mu.Lock()
	defer t.mu.Unlock()
	t.closes++
	return nil
}

func TestVerifReplay_C18(t *testing.T) {
	cases, fails := 0, 0
	report := func(f string, a ...interface{}) {
		fails++
		if fails <= 6 {
			fmt.Printf("REPLAY-FAIL: "+f+"\n", a...)
		}
	}
	interval := 3 * time.Millisecond
	for _, k := range []int{1, 2, 5} {
		cases++
		tr := &c18transport{failAt: k}
		quit := make(chan struct{})
		done := make(chan struct{})
		go func() { keepalive(tr, interval, quit); close(done) }()
		select {
		case <-done:
		case <-time.After(2 * time.Second):
			report("write failure at keepalive #%d: the loop did not stop", k)
			continue
		}
		time.Sleep(5 * interval)
		tr.mu.Lock()
		if tr.pings != k || tr.closes != 1 {
			report("write failure at keepalive #%d: %d pings, %d closes; want %d pings then exactly one close", k, tr.pings, tr.closes, k)
		}
		tr.mu.Unlock()
	}
	for _, after := range []time.Duration{0, 4 * time.Millisecond, 20 * time.Millisecond} {
		cases++
		tr := &c18transport{}
		quit := make(chan struct{})
		done := make(chan struct{})
		start := time.Now()
		go func() { keepalive(tr, interval, quit); close(done) }()
		time.Sleep(after)
		close(quit)
		select {
		case <-done:
		case <-time.After(2 * time.Second):
			report("session end after %v: the loop did not stop", after)
			continue
		}
		tr.mu.Lock()
		atEnd := tr.pings
		tr.mu.Unlock()
		time.Sleep(6 * interval)
		tr.mu.Lock()
		elapsed := time.Since(start)
		if tr.pings != atEnd || tr.closes != 0 {
			report("session end after %v: %d keepalives after the end, %d closes", after, tr.pings-atEnd, tr.closes)
		}
		if after >= 20*time.Millisecond && (atEnd < 2 || time.Duration(atEnd)*interval > elapsed) {
			report("session of %v with interval %v: %d keepalives", after, interval, atEnd)
		}
		tr.mu.Unlock()
	}
	fmt.Printf("REPLAY-CASES: %d\n", cases)
}
