package stanza

// Replay / bounded checks for C15 (injected with go test -overlay).
//  (1) bounded stand-in for the contracts of isUsernameValid / isDomainValid (the strings.IndexFunc <-> closure glue):
//      all single-rune strings 0..0x10FFFF and all strings up to length 3 over a delimiter alphabet;
//  (2) concrete evaluation of the NewJid / Full / Bare contracts and round-trip lemmas on generated triples.

import (
	"fmt"
	"strings"
	"testing"
	"unicode"
	"unicode/utf8"
)

func c15okLocal(s string) bool {
	for _, c := range s {
		if unicode.IsSpace(c) || strings.ContainsRune("@/'\":<>", c) {
			return false
		}
	}
	return true
}

func c15okDomain(s string) bool {
	if s == "" {
		return false
	}
	for _, c := range s {
		if unicode.IsSpace(c) || c == '@' || c == '/' {
			return false
		}
	}
	return true
}

func c15full(n, d, r string) string {
	b := d
	if n != "" {
		b = n + "@" + d
	}
	if r == "" {
		return b
	}
	return b + "/" + r
}

func TestVerifReplay_C15(t *testing.T) {
	cases, fails := 0, 0
	report := func(f string, a ...interface{}) {
		fails++
		if fails <= 6 {
			fmt.Printf("REPLAY-FAIL: "+f+"\n", a...)
		}
	}
	// (1) bounded stand-in
	for c := rune(0); c <= 0x10FFFF; c++ {
		if !utf8.ValidRune(c) {
			continue
		}
		s := string(c)
		cases++
		if isUsernameValid(s) != c15okLocal(s) {
			report("isUsernameValid(%q) = %v, contract says %v", s, isUsernameValid(s), c15okLocal(s))
		}
		if isDomainValid(s) != c15okDomain(s) {
			report("isDomainValid(%q) = %v, contract says %v", s, isDomainValid(s), c15okDomain(s))
		}
	}
	alpha := []string{"a", "é", " ", "\t", "@", "/", ":", "<", ">", "'", "\"", "."}
	var gen func(prefix string, n int)
	var all []string
	gen = func(prefix string, n int) {
		all = append(all, prefix)
		if n == 0 {
			return
		}
		for _, a := range alpha {
			gen(prefix+a, n-1)
		}
	}
	gen("", 3)
	for _, s := range all {
		cases++
		if isUsernameValid(s) != c15okLocal(s) {
			report("isUsernameValid(%q) = %v, contract says %v", s, isUsernameValid(s), c15okLocal(s))
		}
		if isDomainValid(s) != c15okDomain(s) {
			report("isDomainValid(%q) = %v, contract says %v", s, isDomainValid(s), c15okDomain(s))
		}
	}
	// (2) NewJid against its contract, on every generated string (slash-before-at excluded as in the property)
	for _, s := range all {
		at := strings.Index(s, "@")
		sl := strings.Index(s, "/")
		if at >= 0 && sl >= 0 && sl < at {
			continue
		}
		cases++
		local, rest := "", s
		if at >= 0 {
			local, rest = s[:at], s[at+1:]
		}
		dom, res := rest, ""
		if k := strings.Index(rest, "/"); k >= 0 {
			dom, res = rest[:k], rest[k+1:]
		}
		valid := s != "" && (at < 0 || (local != "" && rest != "")) && c15okLocal(local) && c15okDomain(dom)
		j, err := NewJid(s)
		if (err == nil) != valid {
			report("NewJid(%q): err=%v, contract says valid=%v", s, err, valid)
			continue
		}
		if err == nil && (j.Node != local || j.Domain != dom || j.Resource != res) {
			report("NewJid(%q) = (%q,%q,%q), contract says (%q,%q,%q)", s, j.Node, j.Domain, j.Resource, local, dom, res)
		}
	}
	// round trips
	locals := []string{"", "a", "user.name", "é"}
	domains := []string{"d", "example.com", "x:y"}
	resources := []string{"", "r", "a/b", "x@y", "/", "@", "r s"}
	for _, l := range locals {
		for _, d := range domains {
			for _, r := range resources {
				if l == "" && strings.Contains(r, "@") {
					continue // '/' before the first '@': excluded by the property
				}
				cases++
				j := &Jid{Node: l, Domain: d, Resource: r}
				if got := j.Full(); got != c15full(l, d, r) {
					report("Jid{%q,%q,%q}.Full() = %q, want %q", l, d, r, got, c15full(l, d, r))
				}
				if got := j.Bare(); got != c15full(l, d, "") {
					report("Jid{%q,%q,%q}.Bare() = %q, want %q", l, d, r, got, c15full(l, d, ""))
				}
				p, err := NewJid(c15full(l, d, r))
				if err != nil {
					report("NewJid(%q) rejected: %v", c15full(l, d, r), err)
					continue
				}
				if p.Node != l || p.Domain != d || p.Resource != r {
					report("NewJid(%q) = (%q,%q,%q), want (%q,%q,%q)", c15full(l, d, r), p.Node, p.Domain, p.Resource, l, d, r)
				}
				q, err := NewJid(p.Full())
				if err != nil || *q != *p {
					report("parse(Full()) of (%q,%q,%q) = %v, %v", l, d, r, q, err)
				}
			}
		}
	}
	fmt.Printf("REPLAY-CASES: %d\n", cases)
}
