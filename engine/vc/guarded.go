package vc

// Guarded maps (contract directive `guarded S.F by L [label] invariant I($o)`): the sequential verifier's reading of a
// mutex. While the mutex is free other goroutines may change the map, so
//   - acquiring L (Lock/RLock) forgets the content of o.F and assumes the lock invariant I(o);
//   - releasing L (Unlock/RUnlock) has to re-establish I(o)                      (#lockinv[label]);
//   - every read of o.F needs L held (read or write), every write needs it write-held  (#guard.read / #guard.write);
//   - every access is a ghost event MapGet_F(o, key, found, value), MapSet_F(o, key, value), MapDel_F(o, key, had, value),
//     so contracts can talk about what an activation saw and did *inside* its critical sections - the only statements
//     about a shared table that are stable under every schedule.
// What this does not do: it is not a model of interleavings. That the per-activation obligations imply the property for
// all schedules is an argument over mutual exclusion made in DESIGN.md, not a machine-checked one.

import (
	"go/token"
	"go/types"

	"golang.org/x/tools/go/ssa"
)

// guardedField matches an SSA value that is the address of field `name` of a guarded struct.
func (fr *Frame) guardedField(v ssa.Value, lock bool) (*Guarded, Val, bool) {
	fa, ok := v.(*ssa.FieldAddr)
	if !ok {
		return nil, Val{}, false
	}
	pt, ok := fa.X.Type().Underlying().(*types.Pointer)
	if !ok {
		return nil, Val{}, false
	}
	st, ok := pt.Elem().Underlying().(*types.Struct)
	if !ok {
		return nil, Val{}, false
	}
	key := TypeKey(pt.Elem())
	fname := st.Field(fa.Field).Name()
	for _, g := range fr.u.P.CS.Guarded {
		if g.Struct != key {
			continue
		}
		if (lock && g.Lock == fname) || (!lock && g.Field == fname) {
			return g, fr.val(fa.X), true
		}
	}
	return nil, Val{}, false
}

// guardedMap matches a map operand loaded from a guarded field (`*(&o.F)`).
func (fr *Frame) guardedMap(v ssa.Value) (*Guarded, Val, bool) {
	un, ok := v.(*ssa.UnOp)
	if !ok || un.Op != token.MUL {
		return nil, Val{}, false
	}
	return fr.guardedField(un.X, false)
}

func (fr *Frame) guardedEnv(st *State, g *Guarded, owner Val) *Env {
	u := fr.u
	cv := map[string]Val{}
	for k, v := range fr.root.cvars {
		cv[k] = v
	}
	cv["$o"] = owner
	env := &Env{u: u, vars: cv, st: st, old: fr.root.entry, pkg: u.curPkg}
	if tp, ok := u.P.TPkgs[g.Pkg]; ok {
		env.pkg = tp
	}
	return env
}

func (fr *Frame) guardedEval(st *State, g *Guarded, owner Val, src string) (Term, *Rec, bool) {
	e, err := ParseExpr(src)
	if err != nil {
		fr.u.unsupported("%s: guarded %s.%s: %v", fr.oblFn, g.Struct, g.Field, err)
		return "true", nil, false
	}
	t, rec, err := fr.guardedEnv(st, g, owner).EvalClause(e)
	if err != nil {
		fr.u.unsupported("%s: guarded %s.%s: %s: %v", fr.oblFn, g.Struct, g.Field, src, err)
		return "true", nil, false
	}
	return t, rec, true
}

// guardedAccess generates the lock-held obligation of one access and emits its event.
func (fr *Frame) guardedAccess(st *State, g *Guarded, owner Val, write bool, pos token.Pos, kind string, args []Val) {
	u := fr.u
	cond := "locked(addr($o." + g.Lock + "))"
	what := "guard.write"
	desc := "write of " + g.Struct + "." + g.Field + " with " + g.Lock + " write-held"
	if !write {
		cond += " || rlocked(addr($o." + g.Lock + ")) > 0"
		what = "guard.read"
		desc = "read of " + g.Struct + "." + g.Field + " with " + g.Lock + " held"
	}
	if t, rec, ok := fr.guardedEval(st, g, owner, cond); ok {
		u.tagged(g.Inv.Label, func() {
			u.obligeRec(fr.oblFn, what, g.Inv.Label, fr.pos(pos), desc, st.guard, t, rec)
		})
	}
	u.emitEvent(st, kind+"_"+g.Field, append([]Val{owner}, args...))
}

// guardedLockCall is called around calls of sync mutex methods; before=true runs before the callee's contract.
func (fr *Frame) guardedLockCall(st *State, c *ssa.CallCommon, pos token.Pos, before bool) {
	fn := c.StaticCallee()
	if fn == nil || fn.Pkg == nil || fn.Pkg.Pkg.Path() != "sync" || len(c.Args) == 0 {
		return
	}
	g, owner, ok := fr.guardedField(c.Args[0], true)
	if !ok {
		return
	}
	u := fr.u
	switch fn.Name() {
	case "Unlock", "RUnlock":
		if !before {
			return
		}
		// releasing: the lock invariant has to hold again
		env := fr.guardedEnv(st, g, owner)
		t, rec, err := env.EvalClause(g.Inv.Expr)
		if err != nil {
			u.unsupported("%s: lock invariant of %s.%s: %v", fr.oblFn, g.Struct, g.Lock, err)
			return
		}
		u.tagged(g.Inv.Label, func() {
			u.obligeRec(fr.oblFn, "lockinv", g.Inv.Label, fr.pos(pos), g.Inv.Src, st.guard, t, rec)
		})
	case "Lock", "RLock":
		if before {
			return
		}
		// acquired: whatever other goroutines did to the table while the lock was free is unknown
		mt, _ := fieldType(owner.Typ, g.Field).Underlying().(*types.Map)
		if mt == nil {
			u.unsupported("%s: guarded field %s.%s is not a map", fr.oblFn, g.Struct, g.Field)
			return
		}
		if fe, err := ParseExpr("$o." + g.Field); err == nil {
			if mv, err := fr.guardedEnv(st, g, owner).EvalVal(fe); err == nil {
				vs := u.sorts.sortOf(mt.Elem())
				u.set(st, "MD_"+vs, store(u.get(st, "MD_"+vs), mv.T, u.fresh("mapd", "(Array Str Bool)")))
				u.set(st, "MV_"+vs, store(u.get(st, "MV_"+vs), mv.T, u.fresh("mapv", "(Array Str "+vs+")")))
			} else {
				u.unsupported("%s: guarded field %s.%s: %v", fr.oblFn, g.Struct, g.Field, err)
			}
		}
		env := fr.guardedEnv(st, g, owner)
		t, rec, err := env.EvalClause(g.Inv.Expr)
		if err != nil {
			u.unsupported("%s: lock invariant of %s.%s: %v", fr.oblFn, g.Struct, g.Lock, err)
			return
		}
		u.tagged(g.Inv.Label, func() { u.assumeRec(t, rec) })
	}
}

func fieldType(ptr types.Type, name string) types.Type {
	pt, ok := ptr.Underlying().(*types.Pointer)
	if !ok {
		return types.Typ[types.Invalid]
	}
	st, ok := pt.Elem().Underlying().(*types.Struct)
	if !ok {
		return types.Typ[types.Invalid]
	}
	for i := 0; i < st.NumFields(); i++ {
		if st.Field(i).Name() == name {
			return st.Field(i).Type()
		}
	}
	return types.Typ[types.Invalid]
}

// guardedFieldName is the static part of guardedMap (for write-set computation): the guarded field a map operand is
// loaded from, or "".
func guardedFieldName(u *Unit, v ssa.Value) string {
	un, ok := v.(*ssa.UnOp)
	if !ok || un.Op != token.MUL {
		return ""
	}
	fa, ok := un.X.(*ssa.FieldAddr)
	if !ok {
		return ""
	}
	pt, ok := fa.X.Type().Underlying().(*types.Pointer)
	if !ok {
		return ""
	}
	st, ok := pt.Elem().Underlying().(*types.Struct)
	if !ok {
		return ""
	}
	for _, g := range u.P.CS.Guarded {
		if g.Struct == TypeKey(pt.Elem()) && g.Field == st.Field(fa.Field).Name() {
			return g.Field
		}
	}
	return ""
}
