package vc

import (
	"fmt"
	"go/constant"
	"go/types"
	"strings"
)

// Env is the evaluation context of a contract expression.
type Env struct {
	u     *Unit
	vars  map[string]Val
	st    *State
	old   *State
	pkg   *types.Package
	depth int
	inQuant int
	pol   int   // polarity of the current position: +1, -1, or 0 (both); the zero Env value means +1
	npol  bool  // true when pol has been set explicitly
	rec   *Rec
	qvars []string
}

// Quant is a bounded universal quantifier found at a positive position of a clause.
type Quant struct {
	Var  string
	Text Term   // the whole (forall ...) term as it occurs in the clause
	Rng  Term
	Body Term
	Offs []Term // offsets OFF of index terms (+ OFF (f var)) used with the bound variable: instantiation patterns
	Idx  []Term // full index terms mentioning the bound variable
	// typed (non-index) quantifiers: alls(h, p, body)
	Neg    bool     // universal at a negative position of the clause (a hypothesis of the goal)
	Ex     bool     // existential at a positive position (witness candidates are offered to the solver)
	TVars  []string // SMT names
	TNames []string // source names
	TSort  string
}

// instTyped instantiates a typed quantifier with one term per variable.
func instTyped(q *Quant, ts []Term) Term {
	b := q.Body
	for i, v := range q.TVars {
		b = strings.ReplaceAll(b, v, ts[i])
	}
	return b
}

// Rec collects what the instantiation engine needs from the evaluation of one clause.
type Rec struct {
	Quants []*Quant
	Idx    []Term // ground index terms
	Facts  []Term // type invariants of values the clause mentions (hypotheses of this obligation only)
	cur    *Quant
}

func (e *Env) polarity() int {
	if !e.npol {
		return 1
	}
	return e.pol
}

func (e *Env) flip() *Env {
	n := *e
	n.npol = true
	n.pol = -e.polarity()
	return &n
}

func (e *Env) nopol() *Env {
	n := *e
	n.npol = true
	n.pol = 0
	return &n
}

// EvalClause evaluates a boolean clause and returns what was recorded for instantiation.
func (e *Env) EvalClause(x Expr) (Term, *Rec, error) {
	n := *e
	n.rec = &Rec{}
	t, err := n.EvalBool(x)
	return t, n.rec, err
}

func instQuant(q *Quant, t Term) Term {
	return "(=> " + strings.ReplaceAll(q.Rng, q.Var, t) + " " + strings.ReplaceAll(q.Body, q.Var, t) + ")"
}

type evalErr string

func (e *Env) fail(f string, a ...interface{}) { panic(evalErr(fmt.Sprintf(f, a...))) }

func (e *Env) with(vars map[string]Val) *Env {
	n := *e
	n.vars = map[string]Val{}
	for k, v := range e.vars {
		n.vars[k] = v
	}
	for k, v := range vars {
		n.vars[k] = v
	}
	return &n
}

func (e *Env) inState(st *State) *Env {
	n := *e
	n.st = st
	return &n
}

func specVal(t Term, sort string) Val { return Val{T: t, Sort: sort} }

func (u *Unit) goVal(t Term, typ types.Type) Val {
	return Val{T: t, Typ: typ, Sort: u.sorts.sortOf(typ)}
}

// EvalBool evaluates a clause to a Bool term; errors are returned.
func (e *Env) EvalBool(x Expr) (t Term, err error) {
	defer func() {
		if r := recover(); r != nil {
			if ee, ok := r.(evalErr); ok {
				err = fmt.Errorf("%s", string(ee))
				return
			}
			panic(r)
		}
	}()
	v := e.eval(x)
	if v.Sort != SBool {
		return "", fmt.Errorf("clause is not boolean: %s (sort %s)", exprString(x), v.Sort)
	}
	return v.T, nil
}

func (e *Env) EvalVal(x Expr) (v Val, err error) {
	defer func() {
		if r := recover(); r != nil {
			if ee, ok := r.(evalErr); ok {
				err = fmt.Errorf("%s", string(ee))
				return
			}
			panic(r)
		}
	}()
	return e.eval(x), nil
}

func (u *Unit) strLitTerm(s string) Term {
	if s == "" {
		return "EMPTYSTR"
	}
	return u.litUsed(s)
}

func (e *Env) eval(x Expr) Val {
	u := e.u
	switch n := x.(type) {
	case EInt:
		if strings.Contains(n.V, ".") {
			return specVal(n.V, SReal)
		}
		return specVal(n.V, SInt)
	case EStr:
		return specVal(u.strLitTerm(n.V), SStr)
	case EBool:
		if n.V {
			return specVal("true", SBool)
		}
		return specVal("false", SBool)
	case ENil:
		return Val{T: "nil", Sort: "nil"}
	case EIdent:
		if v, ok := e.vars[n.Name]; ok {
			if v.Lazy != nil {
				return u.goVal(u.load(e.st, v.T, v.Lazy), v.Lazy)
			}
			return v
		}
		if v, ok := e.pkgMember(e.pkg, "", n.Name); ok {
			return v
		}
		if _, ok := u.P.TPkgs[n.Name]; ok {
			return Val{Sort: "pkg", T: n.Name}
		}
		e.fail("unknown identifier %s", n.Name)
	case EPtrType:
		v := e.eval(n.X)
		if v.IsType {
			return Val{IsType: true, Typ: types.NewPointer(v.Typ), Sort: "type"}
		}
		// dereference
		if p, ok := v.Typ.Underlying().(*types.Pointer); ok {
			return e.loadAt(v, p.Elem())
		}
		e.fail("cannot dereference %s", exprString(n.X))
	case EUnary:
		ev := e
		if n.Op == "!" {
			ev = e.flip()
		}
		v := ev.eval(n.X)
		switch n.Op {
		case "!":
			return specVal(not(v.T), SBool)
		case "-":
			return Val{T: "(- " + v.T + ")", Sort: v.Sort, Typ: v.Typ}
		}
	case EBinary:
		return e.evalBinary(n)
	case ESel:
		if id, ok := n.X.(EIdent); ok {
			if _, isVar := e.vars[id.Name]; !isVar {
				if _, isPkg := u.P.TPkgs[id.Name]; isPkg {
					if v, ok := e.pkgMember(nil, id.Name, n.Name); ok {
						return v
					}
					e.fail("unknown package member %s.%s", id.Name, n.Name)
				}
			}
		}
		v := e.eval(n.X)
		return e.selectField(v, n.Name)
	case EIndex:
		v := e.eval(n.X)
		i := e.eval(n.I)
		return e.index(v, i)
	case ESlice:
		v := e.eval(n.X)
		lo, hi := Term("0"), Term("")
		if n.Lo != nil {
			lo = e.eval(n.Lo).T
		}
		if v.Sort != SSlice {
			e.fail("slicing a non-slice")
		}
		if n.Hi != nil {
			hi = e.eval(n.Hi).T
		} else {
			hi = "(slen " + v.T + ")"
		}
		t := fmt.Sprintf("(mkSlice (sbase %s) (+ (soff %s) %s) (- %s %s) (- (scap %s) %s))", v.T, v.T, lo, hi, lo, v.T, lo)
		return Val{T: t, Typ: v.Typ, Sort: SSlice}
	case EAssert:
		v := e.eval(n.X)
		t := e.eval(n.T)
		if !t.IsType || v.Sort != SIface {
			e.fail("bad type assertion %s", exprString(x))
		}
		return u.unbox(v.T, t.Typ)
	case ECall:
		return e.evalCall(n)
	}
	e.fail("cannot evaluate %s", exprString(x))
	return Val{}
}

func (e *Env) pkgMember(pkg *types.Package, qual, name string) (Val, bool) {
	u := e.u
	if qual != "" {
		pkg = u.P.TPkgs[qual]
	}
	if pkg == nil {
		return Val{}, false
	}
	obj := pkg.Scope().Lookup(name)
	if obj == nil && qual == "" {
		if t, ok := types.Universe.Lookup(name).(*types.TypeName); ok {
			return Val{IsType: true, Typ: t.Type(), Sort: "type"}, true
		}
		return Val{}, false
	}
	switch o := obj.(type) {
	case *types.Const:
		return u.constVal(o.Val(), o.Type()), true
	case *types.TypeName:
		return Val{IsType: true, Typ: o.Type(), Sort: "type"}, true
	case *types.Var:
		// global variable: its address is a fixed object; the value is loaded from the heap
		addr := u.globalAddr(pkg.Path() + "." + name)
		return u.goVal(u.load(e.st, addr, o.Type()), o.Type()), true
	}
	return Val{}, false
}

func (u *Unit) constVal(c constant.Value, t types.Type) Val {
	switch c.Kind() {
	case constant.Bool:
		if constant.BoolVal(c) {
			return Val{T: "true", Sort: SBool, Typ: t}
		}
		return Val{T: "false", Sort: SBool, Typ: t}
	case constant.String:
		return Val{T: u.strLitTerm(constant.StringVal(c)), Sort: SStr, Typ: t}
	case constant.Int:
		if b, ok := t.Underlying().(*types.Basic); ok && b.Info()&types.IsFloat != 0 {
			return Val{T: c.ExactString() + ".0", Sort: SReal, Typ: t}
		}
		s := c.ExactString()
		if strings.HasPrefix(s, "-") {
			s = "(- " + s[1:] + ")"
		}
		return Val{T: s, Sort: SInt, Typ: t}
	case constant.Float:
		f, _ := constant.Float64Val(c)
		s := fmt.Sprintf("%f", f)
		if strings.HasPrefix(s, "-") {
			s = "(- " + s[1:] + ")"
		}
		return Val{T: s, Sort: SReal, Typ: t}
	}
	return Val{T: "0", Sort: SInt, Typ: t}
}

func (u *Unit) globalAddr(name string) Term {
	k, ok := u.globals[name]
	if !ok {
		if u.globals == nil {
			u.globals = map[string]int{}
		}
		k = len(u.globals) + 2
		u.globals[name] = k
	}
	t := fmt.Sprintf("(obj (- %d))", k)
	if !u.subFacts[t] {
		u.subFacts[t] = true
		u.assume(fmt.Sprintf("(= (rootid %s) (- %d))", t, k))
	}
	return t
}

func (e *Env) coerceNil(v Val, other Val) Val {
	if v.Sort != "nil" {
		return v
	}
	switch other.Sort {
	case SRef:
		return Val{T: "null", Sort: SRef, Typ: other.Typ}
	case SIface:
		return Val{T: "(mkIface 0 null)", Sort: SIface, Typ: other.Typ}
	case SSlice:
		return Val{T: "nilslice", Sort: SSlice, Typ: other.Typ}
	}
	e.fail("nil compared with %s", other.Sort)
	return v
}

func (e *Env) evalBinary(n EBinary) Val {
	u := e.u
	switch n.Op {
	case "&&", "||", "==>", "<==>":
		el, er := e, e
		switch n.Op {
		case "==>":
			el = e.flip()
		case "<==>":
			el, er = e.nopol(), e.nopol()
		}
		l := el.eval(n.L)
		// a guard that is decided statically (typeof of a value whose dynamic type is known at the call site) spares
		// the evaluation of what it guards - and the quantifiers that would be recorded for it
		if l.Sort == SBool && ((n.Op == "==>" && l.T == "false") || (n.Op == "||" && l.T == "true")) {
			return specVal("true", SBool)
		}
		if l.Sort == SBool && n.Op == "&&" && l.T == "false" {
			return specVal("false", SBool)
		}
		r := er.eval(n.R)
		if l.Sort != SBool || r.Sort != SBool {
			e.fail("boolean operator %s on non-boolean in %s", n.Op, exprString(n))
		}
		switch n.Op {
		case "&&":
			return specVal(and(l.T, r.T), SBool)
		case "||":
			return specVal(or(l.T, r.T), SBool)
		case "==>":
			return specVal(implies(l.T, r.T), SBool)
		default:
			return specVal("(= "+l.T+" "+r.T+")", SBool)
		}
	case "==", "!=":
		l, r := e.nopol().eval(n.L), e.nopol().eval(n.R)
		var t Term
		switch {
		case l.IsType || r.IsType:
			// typeof(x) == T
			if l.IsType {
				l, r = r, l
			}
			if l.Sort != SInt {
				e.fail("type compared with non-typeof in %s", exprString(n))
			}
			t = eq(l.T, intLit(int64(u.P.tagOf(r.Typ))))
			if isIntLit(l.T) && l.T != intLit(int64(u.P.tagOf(r.Typ))) {
				t = "false"
			}
		default:
			l = e.coerceNil(l, r)
			r = e.coerceNil(r, l)
			if l.Sort != r.Sort {
				e.fail("comparison of %s with %s in %s", l.Sort, r.Sort, exprString(n))
			}
			switch {
			case l.Sort == SSlice && (l.T == "nilslice" || r.T == "nilslice"):
				o := l
				if l.T == "nilslice" {
					o = r
				}
				t = "(= (sbase " + o.T + ") 0)"
			case l.Sort == SIface && r.T == "(mkIface 0 null)":
				t = "(= (tag " + l.T + ") 0)"
			case l.Sort == SIface && l.T == "(mkIface 0 null)":
				t = "(= (tag " + r.T + ") 0)"
			default:
				t = eq(l.T, r.T)
			}
		}
		if n.Op == "!=" {
			t = not(t)
		}
		return specVal(t, SBool)
	case "<", "<=", ">", ">=":
		l, r := e.eval(n.L), e.eval(n.R)
		l, r = e.numPair(l, r, n)
		return specVal("("+n.Op+" "+l.T+" "+r.T+")", SBool)
	case "+", "-", "*", "/", "%":
		l, r := e.eval(n.L), e.eval(n.R)
		if l.Sort == SStr && r.Sort == SStr && n.Op == "+" {
			u.usesStrOps = true
			return specVal("(str.++ "+l.T+" "+r.T+")", SStr)
		}
		l, r = e.numPair(l, r, n)
		op := n.Op
		switch op {
		case "/":
			if l.Sort == SInt {
				op = "div"
			}
		case "%":
			op = "mod"
		}
		return Val{T: "(" + op + " " + l.T + " " + r.T + ")", Sort: l.Sort}
	}
	e.fail("unknown operator %s", n.Op)
	return Val{}
}

func (e *Env) numPair(l, r Val, n EBinary) (Val, Val) {
	if l.Sort == SInt && r.Sort == SReal {
		l = specVal("(to_real "+l.T+")", SReal)
	}
	if r.Sort == SInt && l.Sort == SReal {
		r = specVal("(to_real "+r.T+")", SReal)
	}
	if l.Sort != r.Sort || (l.Sort != SInt && l.Sort != SReal) {
		e.fail("arithmetic on %s and %s in %s", l.Sort, r.Sort, exprString(n))
	}
	return l, r
}

// fieldIndex finds a field (following embedded structs one level at a time).
func fieldPath(st *types.Struct, name string) ([]int, types.Type) {
	for i := 0; i < st.NumFields(); i++ {
		if st.Field(i).Name() == name {
			return []int{i}, st.Field(i).Type()
		}
	}
	for i := 0; i < st.NumFields(); i++ {
		f := st.Field(i)
		if !f.Embedded() {
			continue
		}
		ft := f.Type()
		if p, ok := ft.Underlying().(*types.Pointer); ok {
			_ = p
			continue
		}
		if s2, ok := ft.Underlying().(*types.Struct); ok {
			if p, t := fieldPath(s2, name); p != nil {
				return append([]int{i}, p...), t
			}
		}
	}
	return nil, nil
}

func (e *Env) selectField(v Val, name string) Val {
	u := e.u
	if v.Typ == nil {
		e.fail("field %s of untyped value", name)
	}
	// ghost field?
	base := v.Typ
	if p, ok := base.Underlying().(*types.Pointer); ok {
		base = p.Elem()
	}
	if g, ok := u.P.CS.Ghosts[TypeKey(base)+"."+name]; ok {
		comp := "G_" + smtIdent(TypeKey(base)) + "_" + name
		u.setCompSort(comp, "(Array Ref "+g.Sort+")")
		if v.Sort != SRef {
			e.fail("ghost field %s needs a pointer receiver", name)
		}
		return specVal(sel(u.get(e.st, comp), v.T), g.Sort)
	}
	switch t := v.Typ.Underlying().(type) {
	case *types.Pointer:
		st, ok := t.Elem().Underlying().(*types.Struct)
		if !ok {
			e.fail("field %s of pointer to non-struct", name)
		}
		path, ft := fieldPath(st, name)
		if path == nil {
			e.fail("no field %s in %s", name, TypeKey(t.Elem()))
		}
		fa := e.fieldAddr(v.T, t.Elem(), path)
		return u.goVal(u.loadPtr(e.st, fa, ft), ft)
	case *types.Struct:
		path, ft := fieldPath(t, name)
		if path == nil {
			e.fail("no field %s in %s", name, TypeKey(v.Typ))
		}
		cur := v.T
		var ct types.Type = v.Typ
		for _, i := range path {
			si := u.sorts.structOf(ct)
			if si.opaque {
				e.fail("field %s of opaque struct %s", name, TypeKey(ct))
			}
			cur = "(" + si.fields[i].sel + " " + cur + ")"
			ct = si.fields[i].typ
		}
		return u.goVal(cur, ft)
	}
	e.fail("field %s of non-struct %s", name, TypeKey(v.Typ))
	return Val{}
}

func (e *Env) loadAt(p Val, elem types.Type) Val {
	return e.u.goVal(e.u.loadPtr(e.st, p, elem), elem)
}

// fieldAddr walks a field path from the struct at addr and returns the address of the last field.
func (e *Env) fieldAddr(addr Term, ct types.Type, path []int) Val {
	u := e.u
	var out Val
	for n, i := range path {
		si := u.sorts.structOf(ct)
		if si.opaque {
			e.fail("field of opaque struct %s", TypeKey(ct))
		}
		if n == len(path)-1 {
			out = Val{T: u.mkSub(addr, i), Sort: SRef, FBase: addr, FStruct: ct, FIdx: i}
			e.groundSubFact(out.T)
			break
		}
		addr = u.mkSub(addr, i)
		e.groundSubFact(addr)
		ct = si.fields[i].typ
	}
	return out
}

func (e *Env) index(v, i Val) Val {
	u := e.u
	if v.Sort == SSlice && v.Typ != nil {
		et := v.Typ.Underlying().(*types.Slice).Elem()
		es := u.sorts.sortOf(et)
		off := "(soff " + v.T + ")"
		ix := "(+ " + off + " " + i.T + ")"
		e.recordIdx(off, ix)
		_ = es
		t := sel(sel(u.get(e.st, u.elemComp(et)), "(sbase "+v.T+")"), ix)
		return u.goVal(t, et)
	}
	if strings.HasPrefix(v.Sort, "(Array ") {
		// spec-level array
		inner := strings.TrimSuffix(strings.TrimPrefix(v.Sort, "(Array Int "), ")")
		out := specVal(sel(v.T, i.T), inner)
		// give datatype-valued elements their Go type back so that fields can be selected
		for key, si := range u.sorts.structs {
			if si.sort == inner {
				_ = key
				if si.gotype != nil {
					out.Typ = si.gotype
				}
			}
		}
		return out
	}
	e.fail("indexing a %s", v.Sort)
	return Val{}
}

func (e *Env) evalCall(n ECall) Val {
	u := e.u
	if k := strings.LastIndex(n.Fun, "."); k > 0 {
		// pkg.pred(...): preds and spec functions live in one global name space
		short := n.Fun[k+1:]
		_, isPred := u.P.CS.Preds[short]
		_, isSpec := u.P.CS.Specs[short]
		if isPred || isSpec {
			n.Fun = short
		}
	}
	argn := func(k int) {
		if len(n.Args) != k {
			e.fail("%s expects %d arguments", n.Fun, k)
		}
	}
	switch n.Fun {
	case "old":
		argn(1)
		if e.old == nil {
			e.fail("old() not available here")
		}
		return e.inState(e.old).eval(n.Args[0])
	case "len":
		argn(1)
		v := e.eval(n.Args[0])
		switch v.Sort {
		case SSlice:
			if e.inQuant == 0 && e.rec != nil {
				// the shape invariant of every slice value (the fact a load in the code gets): a goal that mentions
				// len(x.f) must not depend on the code having loaded x.f before. Local to the obligation being built.
				e.rec.Facts = append(e.rec.Facts, "(>= (slen "+v.T+") 0)")
			}
			return specVal("(slen "+v.T+")", SInt)
		case SStr:
			return specVal(u.strLen(v.T, e.inQuant == 0), SInt)
		}
		e.fail("len of %s", v.Sort)
	case "iszerovalue":
		// iszerovalue(x): x is syntactically the zero value of its type at the call site (e.g. time.Time{}); for opaque
		// values, whose content is not modelled, anything else is unknown
		argn(1)
		v := e.eval(n.Args[0])
		if v.Zero {
			return specVal("true", SBool)
		}
		return specVal(u.fresh("zerov", SBool), SBool)
	case "base":
		// base(s): identity of the backing array of a slice (0 for nil)
		argn(1)
		v := e.eval(n.Args[0])
		if v.Sort != SSlice {
			e.fail("base of %s", v.Sort)
		}
		return specVal("(sbase "+v.T+")", SInt)
	case "cap":
		argn(1)
		v := e.eval(n.Args[0])
		return specVal("(scap "+v.T+")", SInt)
	case "forall", "exists":
		argn(4)
		id, ok := n.Args[0].(EIdent)
		if !ok {
			e.fail("%s: first argument must be a variable", n.Fun)
		}
		lo, hi := e.eval(n.Args[1]), e.eval(n.Args[2])
		u.nfresh++
		name := fmt.Sprintf("q!%d!%s", u.nfresh, smtIdent(id.Name))
		e2 := e.with(map[string]Val{id.Name: specVal(name, SInt)})
		e2.inQuant = e.inQuant + 1
		e2.qvars = append(append([]string{}, e.qvars...), name)
		var q *Quant
		outer := e.rec != nil && e.inQuant == 0 && (e.polarity() == 1 || (e.polarity() == -1 && n.Fun == "forall"))
		if outer {
			q = &Quant{Var: name, Neg: e.polarity() == -1}
			e.rec.cur = q
		}
		body := e2.eval(n.Args[3])
		if body.Sort != SBool {
			e.fail("%s body not boolean", n.Fun)
		}
		rng := "(and (<= " + lo.T + " " + name + ") (< " + name + " " + hi.T + "))"
		if n.Fun == "forall" {
			t := "(forall ((" + name + " Int)) (=> " + rng + " " + body.T + "))"
			if outer {
				q.Text, q.Rng, q.Body = t, rng, body.T
				e.rec.Quants = append(e.rec.Quants, q)
				e.rec.cur = nil
			}
			return specVal(t, SBool)
		}
		t := "(exists ((" + name + " Int)) (and " + rng + " " + body.T + "))"
		if outer {
			q.Text, q.Rng, q.Body, q.Ex = t, rng, body.T, true
			e.rec.Quants = append(e.rec.Quants, q)
			e.rec.cur = nil
		}
		return specVal(t, SBool)
	case "typeof":
		argn(1)
		v := e.eval(n.Args[0])
		if v.Sort != SIface {
			e.fail("typeof of non-interface")
		}
		if v.DynTyp != nil {
			return specVal(intLit(int64(u.P.tagOf(v.DynTyp))), SInt)
		}
		return specVal("(tag "+v.T+")", SInt)
	case "fresh":
		argn(1)
		v := e.eval(n.Args[0])
		if e.old == nil {
			e.fail("fresh() needs a pre-state")
		}
		a0 := u.get(e.old, "alloc")
		switch v.Sort {
		case SRef:
			return specVal("(>= (rootid "+v.T+") "+a0+")", SBool)
		case SSlice:
			return specVal("(or (= (sbase "+v.T+") 0) (>= (sbase "+v.T+") "+a0+"))", SBool)
		case SIface:
			return specVal("(>= (rootid (val "+v.T+")) "+a0+")", SBool)
		}
		e.fail("fresh of %s", v.Sort)
	case "allocated":
		argn(1)
		v := e.eval(n.Args[0])
		a := u.get(e.st, "alloc")
		switch v.Sort {
		case SRef:
			return specVal("(< (rootid "+v.T+") "+a+")", SBool)
		case SSlice:
			return specVal("(< (sbase "+v.T+") "+a+")", SBool)
		case SIface:
			return specVal("(< (rootid (val "+v.T+")) "+a+")", SBool)
		}
		e.fail("allocated of %s", v.Sort)
	case "min", "max":
		argn(2)
		a, b := e.eval(n.Args[0]), e.eval(n.Args[1])
		a, b = e.numPair(a, b, EBinary{Op: n.Fun})
		op := "<="
		if n.Fun == "max" {
			op = ">="
		}
		return specVal("(ite ("+op+" "+a.T+" "+b.T+") "+a.T+" "+b.T+")", a.Sort)
	case "ite":
		argn(3)
		c, a, b := e.nopol().eval(n.Args[0]), e.eval(n.Args[1]), e.eval(n.Args[2])
		a = e.coerceNil(a, b)
		b = e.coerceNil(b, a)
		return Val{T: ite(c.T, a.T, b.T), Sort: a.Sort, Typ: a.Typ}
	case "bytes":
		argn(1)
		v := e.eval(n.Args[0])
		if v.Sort == SStr {
			return v
		}
		if v.Sort != SSlice {
			e.fail("bytes() of %s", v.Sort)
		}
		return specVal(sel(u.get(e.st, "BS"), "(sbase "+v.T+")"), SStr)
	case "count":
		argn(1)
		k := e.kindName(n.Args[0])
		return specVal(u.get(e.st, "cnt_"+k), SInt)
	case "arg", "last":
		// arg(K, j, i): i-th argument (default 0) of the j-th event of kind K; last(K, i)
		k := e.kindName(n.Args[0])
		var j Term
		rest := n.Args[1:]
		if n.Fun == "arg" {
			if len(rest) < 1 {
				e.fail("arg(K, j[, i])")
			}
			j = e.eval(rest[0]).T
			rest = rest[1:]
		} else {
			j = "(- " + u.get(e.st, "cnt_"+k) + " 1)"
		}
		i := 0
		if len(rest) == 1 {
			if lit, ok := rest[0].(EInt); ok {
				fmt.Sscan(lit.V, &i)
			} else {
				e.fail("argument index must be a literal")
			}
		}
		sorts := u.eventSorts(k)
		if i >= len(sorts) {
			e.fail("event %s has %d arguments", k, len(sorts))
		}
		comp := fmt.Sprintf("arg_%s_%d", k, i)
		u.setCompSort(comp, "(Array Int "+sorts[i]+")")
		if n.Fun == "arg" {
			e.recordEventIdx(j)
		}
		return Val{T: sel(u.get(e.st, comp), j), Sort: sorts[i], Typ: u.eventArgTyp[k+"/"+fmt.Sprint(i)]}
	case "at", "atlast":
		k := e.kindName(n.Args[0])
		var j Term
		if n.Fun == "at" {
			argn(2)
			j = e.eval(n.Args[1]).T
		} else {
			j = "(- " + u.get(e.st, "cnt_"+k) + " 1)"
		}
		if n.Fun == "at" {
			e.recordEventIdx(j)
		}
		return specVal(sel(u.get(e.st, "at_"+k), j), SInt)
	case "held":
		argn(1)
		v := e.eval(n.Args[0])
		return specVal("(> "+sel(u.get(e.st, "held"), v.T)+" 0)", SBool)
	case "addr":
		// addr(p.f): the address of a field (for comparing pointers)
		argn(1)
		return e.addrOf(n.Args[0])
	case "mapHas", "mapGet":
		argn(2)
		m, k := e.eval(n.Args[0]), e.eval(n.Args[1])
		mt, ok := m.Typ.Underlying().(*types.Map)
		if !ok {
			e.fail("%s of non-map", n.Fun)
		}
		vs := u.sorts.sortOf(mt.Elem())
		if n.Fun == "mapHas" {
			return specVal(sel(sel(u.get(e.st, "MD_"+vs), m.T), k.T), SBool)
		}
		return u.goVal(sel(sel(u.get(e.st, "MV_"+vs), m.T), k.T), mt.Elem())
	case "strlen":
		argn(1)
		v := e.eval(n.Args[0])
		return specVal(u.strLen(v.T, e.inQuant == 0), SInt)
	case "concat":
		u.usesStrOps = true
		var ts []Term
		for _, a := range n.Args {
			ts = append(ts, e.eval(a).T)
		}
		return specVal(app("str.++", ts...), SStr)
	case "indexof":
		argn(2)
		u.usesStrOps = true
		return specVal("(str.indexof "+e.eval(n.Args[0]).T+" "+e.eval(n.Args[1]).T+" 0)", SInt)
	case "contains":
		argn(2)
		u.usesStrOps = true
		return specVal("(str.contains "+e.eval(n.Args[0]).T+" "+e.eval(n.Args[1]).T+")", SBool)
	case "prefixof":
		argn(2)
		u.usesStrOps = true
		return specVal("(str.prefixof "+e.eval(n.Args[0]).T+" "+e.eval(n.Args[1]).T+")", SBool)
	case "suffixof":
		argn(2)
		u.usesStrOps = true
		return specVal("(str.suffixof "+e.eval(n.Args[0]).T+" "+e.eval(n.Args[1]).T+")", SBool)
	case "substr":
		argn(3)
		u.usesStrOps = true
		return specVal("(str.substr "+e.eval(n.Args[0]).T+" "+e.eval(n.Args[1]).T+" "+e.eval(n.Args[2]).T+")", SStr)
	case "inre":
		// inre(s, "smt regex term")
		argn(2)
		u.usesStrOps = true
		re, ok := n.Args[1].(EStr)
		if !ok {
			e.fail("inre needs a literal regex term")
		}
		return specVal("(str.in_re "+e.eval(n.Args[0]).T+" "+re.V+")", SBool)
	case "iface":
		// iface(x): the interface value holding x (pointer values only)
		argn(1)
		v := e.eval(n.Args[0])
		if v.Sort == SIface {
			return v
		}
		if v.Sort != SRef || v.Typ == nil {
			e.fail("iface() of %s", v.Sort)
		}
		return specVal(fmt.Sprintf("(ite (= %s null) (mkIface %d null) (mkIface %d %s))", v.T, u.P.tagOf(v.Typ), u.P.tagOf(v.Typ), v.T), SIface)
	case "upd":
		// upd(a, i, v): spec-level array update
		argn(3)
		a, i, v := e.eval(n.Args[0]), e.eval(n.Args[1]), e.eval(n.Args[2])
		return Val{T: store(a.T, i.T, v.T), Sort: a.Sort}
	case "toreal":
		argn(1)
		return specVal("(to_real "+e.eval(n.Args[0]).T+")", SReal)
	case "toint":
		argn(1)
		return specVal("(to_int "+e.eval(n.Args[0]).T+")", SInt)
	case "all", "some":
		// all(x Sort, body)
		argn(2)
		var name, sort string
		switch a := n.Args[0].(type) {
		case EIdent:
			name, sort = a.Name, SInt
		default:
			e.fail("all(x, body) / use axiom vars for typed quantification")
		}
		q := u.freshName("q_" + name)
		e2 := e.with(map[string]Val{name: specVal(q, sort)})
		e2.inQuant = e.inQuant + 1
		body := e2.eval(n.Args[1])
		if n.Fun == "all" {
			return specVal("(forall (("+q+" "+sort+")) "+body.T+")", SBool)
		}
		return specVal("(exists (("+q+" "+sort+")) "+body.T+")", SBool)
	}
	if g, ok := u.P.CS.GhostMaps[n.Fun]; ok {
		argn(1)
		k := e.eval(n.Args[0])
		kt := k.T
		if k.Sort == SIface && g.Struct == SRef {
			kt = "(val " + k.T + ")"
		} else if k.Sort == "nil" {
			kt = "null"
		} else if k.Sort != g.Struct {
			e.fail("ghost map %s: key of sort %s, want %s", g.Name, k.Sort, g.Struct)
		}
		comp := "GM_" + g.Name
		gs := u.ghostSort(g.Sort)
		u.setCompSort(comp, "(Array "+g.Struct+" "+gs+")")
		return specVal(sel(u.get(e.st, comp), kt), gs)
	}
	if n.Fun == "alls" || n.Fun == "alli" {
		// alls(h, p, ..., body): universally quantified string (alli: integer) variables
		if len(n.Args) < 2 {
			e.fail("%s(vars..., body)", n.Fun)
		}
		sort := SStr
		if n.Fun == "alli" {
			sort = SInt
		}
		vars := map[string]Val{}
		q := &Quant{TSort: sort}
		var binds []string
		for _, a := range n.Args[:len(n.Args)-1] {
			id, ok := a.(EIdent)
			if !ok {
				e.fail("%s: variables must be identifiers", n.Fun)
			}
			u.nfresh++
			name := fmt.Sprintf("q!%d!%s", u.nfresh, smtIdent(id.Name))
			vars[id.Name] = specVal(name, sort)
			q.TVars = append(q.TVars, name)
			q.TNames = append(q.TNames, id.Name)
			binds = append(binds, "("+name+" "+sort+")")
		}
		e2 := e.with(vars)
		e2.inQuant = e.inQuant + 1
		e2.qvars = append(append([]string{}, e.qvars...), q.TVars...)
		body := e2.eval(n.Args[len(n.Args)-1])
		if body.Sort != SBool {
			e.fail("%s body not boolean", n.Fun)
		}
		t := "(forall (" + strings.Join(binds, " ") + ") " + body.T + ")"
		if e.rec != nil && e.inQuant == 0 && e.polarity() == 1 {
			q.Text, q.Body = t, body.T
			e.rec.Quants = append(e.rec.Quants, q)
		}
		return specVal(t, SBool)
	}
	if p, ok := u.P.CS.Preds[n.Fun]; ok {
		if len(p.Params) != len(n.Args) {
			e.fail("pred %s expects %d arguments", p.Name, len(p.Params))
		}
		if e.depth > 20 {
			e.fail("pred expansion too deep (recursive pred %s?)", p.Name)
		}
		vars := map[string]Val{}
		for i, a := range n.Args {
			v := e.eval(a)
			if e.inQuant == 0 && len(v.T) > 40 && v.Sort != "nil" && v.Sort != "type" && v.Sort != "pkg" && !strings.HasPrefix(v.Sort, "ghostaddr") {
				// name big argument terms so that the expansion stays a DAG
				v.T = u.def("a_"+p.Params[i], v.Sort, v.T)
			}
			vars[p.Params[i]] = v
		}
		e2 := e.with(vars)
		e2.depth = e.depth + 1
		if p.Pkg != "" {
			if tp, ok := u.P.TPkgs[p.Pkg]; ok {
				e2.pkg = tp
			}
		}
		return e2.eval(p.Body)
	}
	if s, ok := u.P.CS.Specs[n.Fun]; ok {
		if len(s.Params) != len(n.Args) {
			e.fail("spec %s expects %d arguments", s.Name, len(s.Params))
		}
		u.declareSpec(s)
		var ts []Term
		for i, a := range n.Args {
			v := e.eval(a)
			if v.Sort == "nil" {
				v = e.coerceNil(v, Val{Sort: s.Params[i]})
			}
			if v.Sort != s.Params[i] {
				e.fail("spec %s argument %d: got %s want %s", s.Name, i, v.Sort, s.Params[i])
			}
			ts = append(ts, v.T)
		}
		return specVal(app(s.Name, ts...), s.Result)
	}
	e.fail("unknown function %s in contract", n.Fun)
	return Val{}
}

func (e *Env) kindName(x Expr) string {
	id, ok := x.(EIdent)
	if !ok {
		e.fail("event kind must be an identifier")
	}
	return id.Name
}

// addrOf evaluates an lvalue expression to its address.
func (e *Env) addrOf(x Expr) Val {
	u := e.u
	switch n := x.(type) {
	case ESel:
		v := e.eval(n.X)
		if v.Typ == nil {
			e.fail("address of field of untyped value")
		}
		p, ok := v.Typ.Underlying().(*types.Pointer)
		if !ok {
			// field of an addressable struct: recurse
			base := e.addrOf(n.X)
			st, ok := base.Typ.Underlying().(*types.Pointer).Elem().Underlying().(*types.Struct)
			if !ok {
				e.fail("address of field of non-struct")
			}
			path, ft := fieldPath(st, n.Name)
			if path == nil {
				e.fail("no field %s", n.Name)
			}
			fa := e.fieldAddr(base.T, base.Typ.Underlying().(*types.Pointer).Elem(), path)
			fa.Typ = types.NewPointer(ft)
			return fa
		}
		st, ok := p.Elem().Underlying().(*types.Struct)
		if !ok {
			e.fail("address of field of non-struct pointer")
		}
		if g, ok := u.P.CS.Ghosts[TypeKey(p.Elem())+"."+n.Name]; ok {
			return Val{T: v.T, Sort: "ghostaddr:" + "G_" + smtIdent(TypeKey(p.Elem())) + "_" + n.Name + ":" + g.Sort}
		}
		path, ft := fieldPath(st, n.Name)
		if path == nil {
			e.fail("no field %s in %s", n.Name, TypeKey(p.Elem()))
		}
		fa := e.fieldAddr(v.T, p.Elem(), path)
		fa.Typ = types.NewPointer(ft)
		return fa
	case EPtrType:
		v := e.eval(n.X)
		return v
	case ECall:
		if g, ok := u.P.CS.GhostMaps[n.Fun]; ok && len(n.Args) == 1 {
			k := e.eval(n.Args[0])
			kt := k.T
			if k.Sort == SIface && g.Struct == SRef {
				kt = "(val " + k.T + ")"
			}
			comp := "GM_" + g.Name
			gs := u.ghostSort(g.Sort)
			u.setCompSort(comp, "(Array "+g.Struct+" "+gs+")")
			return Val{T: kt, Sort: "ghostaddr:" + comp + ":" + gs}
		}
	case EIdent:
		// global variable
		pk := e.pkg
		if pk != nil {
			if o, ok := pk.Scope().Lookup(n.Name).(*types.Var); ok {
				return Val{T: u.globalAddr(pk.Path() + "." + n.Name), Sort: SRef, Typ: types.NewPointer(o.Type())}
			}
		}
	}
	e.fail("not an assignable location: %s", exprString(x))
	return Val{}
}

// recordIdx notes an element index term for the instantiation engine.
func (e *Env) recordIdx(off, ix Term) {
	if e.rec == nil {
		return
	}
	bound := false
	for _, q := range e.qvars {
		if strings.Contains(ix, q) {
			bound = true
		}
	}
	if !bound {
		e.rec.Idx = append(e.rec.Idx, ix)
		return
	}
	if q := e.rec.cur; q != nil && strings.Contains(ix, q.Var) && !strings.Contains(off, q.Var) {
		// only the outermost variable, and only if no inner bound variable occurs
		for _, v := range e.qvars {
			if v != q.Var && strings.Contains(ix, v) {
				return
			}
		}
		q.Offs = append(q.Offs, off)
		q.Idx = append(q.Idx, ix)
	}
}

// recordEventIdx notes the position term of an event (arg(K, j, i), at(K, j)) for the instantiation engine, like an
// element index: `base + q` under a quantifier over q is offered the ground positions minus base.
func (e *Env) recordEventIdx(j Term) {
	if e.rec == nil {
		return
	}
	if q := e.rec.cur; q != nil && strings.Contains(j, q.Var) {
		switch {
		case j == q.Var:
			e.recordIdx("0", j)
		case strings.HasPrefix(j, "(+ ") && strings.HasSuffix(j, " "+q.Var+")"):
			e.recordIdx(j[3:len(j)-len(q.Var)-2], j)
		case strings.HasPrefix(j, "(+ "+q.Var+" ") && strings.HasSuffix(j, ")"):
			e.recordIdx(j[len("(+ "+q.Var+" "):len(j)-1], j)
		}
		return
	}
	e.recordIdx("0", j)
}

// groundSubFact states rootid(sub(r, i)) = rootid(r) for an address built during contract evaluation, unless it
// mentions a bound variable (then it cannot be asserted as a ground fact).
func (e *Env) groundSubFact(t Term) {
	for _, q := range e.qvars {
		if strings.Contains(t, q) {
			return
		}
	}
	e.u.subFact(t)
}

func isIntLit(t Term) bool {
	if t == "" {
		return false
	}
	for _, c := range t {
		if c < '0' || c > '9' {
			return false
		}
	}
	return true
}
