package vc

import (
	"sort"
	"fmt"
	"go/types"
	"strings"

	"golang.org/x/tools/go/ssa"
)

// VerifyFunc generates the obligations of one function under contract.
func (p *Program) VerifyFunc(key string) (u *Unit, err error) {
	fn, ok := p.Funcs[key]
	fc := p.CS.Funcs[key]
	u = newUnit(p, key)
	if !ok || fc == nil {
		u.Obls = append(u.Obls, &Obligation{Name: key + "#bind", Func: key, Kind: "bind", Goal: "false", Guard: "true", unit: u, Src: "contract does not bind to a function"})
		return u, nil
	}
	if fn.Blocks == nil {
		return u, fmt.Errorf("%s has no body", key)
	}
	defer func() {
		if r := recover(); r != nil {
			if ee, ok := r.(evalErr); ok {
				err = fmt.Errorf("%s: %s", key, string(ee))
				return
			}
			panic(r)
		}
	}()
	if fn.Pkg != nil {
		u.curPkg = fn.Pkg.Pkg
	} else if fn.Parent() != nil && fn.Parent().Pkg != nil {
		u.curPkg = fn.Parent().Pkg.Pkg
	}
	st := &State{guard: "true", comp: map[string]Term{}}
	fr := &Frame{u: u, fn: fn, oblFn: key, vals: map[ssa.Value]Val{}, contract: fc, cvars: map[string]Val{}, closures: map[Term]closureInfo{}}
	fr.root = fr
	nparams := len(fn.Params)
	if len(fc.Params) != nparams+len(fn.FreeVars) && len(fc.Params) != nparams {
		u.Obls = append(u.Obls, &Obligation{Name: key + "#bind.params", Func: key, Kind: "bind", Goal: "false", Guard: "true", unit: u,
			Src: fmt.Sprintf("contract names %d parameters, function has %d (+%d free variables)", len(fc.Params), nparams, len(fn.FreeVars))})
		return u, nil
	}
	alloc0 := u.get(st, "alloc")
	_ = alloc0
	for i, prm := range fn.Params {
		t := prm.Type()
		v := u.goVal(u.fresh("p_"+prm.Name(), u.sorts.sortOf(t)), t)
		u.typeFacts(st, v.T, t)
		fr.vals[prm] = v
		fr.cvars[fc.Params[i]] = v
	}
	for i, fv := range fn.FreeVars {
		t := fv.Type()
		v := u.goVal(u.fresh("fv_"+fv.Name(), u.sorts.sortOf(t)), t)
		u.typeFacts(st, v.T, t)
		fr.vals[fv] = v
		cv := v
		if pt, ok := t.Underlying().(*types.Pointer); ok {
			// a captured variable: contracts name the variable, not its cell
			u.assume("(not (= " + v.T + " null))")
			cv.Lazy = pt.Elem()
		}
		if nparams+i < len(fc.Params) {
			fr.cvars[fc.Params[nparams+i]] = cv
		}
		fr.cvars[fv.Name()] = cv
	}
	fr.entry = st.clone()
	env := &Env{u: u, vars: fr.cvars, st: st, old: fr.entry, pkg: u.curPkg}
	for _, r := range fc.Requires {
		t, rec, err := env.EvalClause(r.Expr)
		if err != nil {
			return u, fmt.Errorf("%s: requires %q: %v", key, r.Src, err)
		}
		u.assumeRec(t, rec)
	}
	// package-level variables set once by package initialisation (no function stores to them: checked by GlobalStores)
	for _, gi := range p.CS.GlobalInvs {
		genv := *env
		if tp, ok := p.TPkgs[gi.Label]; ok {
			genv.pkg = tp
		}
		if t, err := genv.EvalBool(gi.Expr); err == nil {
			u.assume(t)
			u.trusted["globalinv "+gi.Src+" (package initialisation; no other store: scanned)"] = true
		}
	}
	u.cover(key, "pre", p.pos(fn.Pos()), "true")
	// ghost events that stand for "this function was called": emitted on entry when their arguments and
	// condition do not mention results, otherwise at each return
	retEmits := []EmitSpec{}
	for _, es := range fc.EmitEvents {
		late := es.When != nil && mentions(es.When, fc.Results)
		for _, a := range es.Args {
			if mentions(a, fc.Results) {
				late = true
			}
		}
		if late {
			retEmits = append(retEmits, es)
			continue
		}
		var evs []Val
		for _, a := range es.Args {
			v, err := env.EvalVal(a)
			if err != nil {
				return u, fmt.Errorf("%s: emit %s: %v", key, es.Kind, err)
			}
			evs = append(evs, v)
		}
		if es.When != nil {
			w, err := env.EvalBool(es.When)
			if err != nil {
				return u, fmt.Errorf("%s: emit %s: %v", key, es.Kind, err)
			}
			s2 := st.clone()
			u.emitEvent(s2, es.Kind, evs)
			m := u.merge([]edgeState{{u.def("g", SBool, w), s2}, {u.def("g", SBool, not(w)), st.clone()}}, "emit")
			*st = *m
			st.guard = "true"
		} else {
			u.emitEvent(st, es.Kind, evs)
		}
	}
	// assigns clause -> locations at entry
	for i, loc := range fc.Assigns {
		if id, ok := loc.(EIdent); ok && id.Name == "*" {
			fr.assignAll = true
			continue
		}
		if pc, ok := loc.(ECall); ok && pc.Fun == "pointee" {
			continue
		}
		a, err := func() (v Val, err error) {
			defer func() {
				if r := recover(); r != nil {
					if ee, ok := r.(evalErr); ok {
						err = fmt.Errorf("%s", string(ee))
						return
					}
					panic(r)
				}
			}()
			return env.addrOf(loc), nil
		}()
		if err != nil {
			return u, fmt.Errorf("%s: assigns %q: %v", key, fc.AssignsSrc[i], err)
		}
		if strings.HasPrefix(a.Sort, "ghostaddr:") {
			continue
		}
		fr.assignLocs = append(fr.assignLocs, assignLoc{u.def("asg", SRef, a.T), fc.AssignsSrc[i]})
	}
	for _, el := range fc.Elems {
		v, err := env.EvalVal(el)
		if err != nil {
			return u, fmt.Errorf("%s: elems: %v", key, err)
		}
		if _, isMap := v.Typ.Underlying().(*types.Map); isMap {
			fr.assignLocs = append(fr.assignLocs, assignLoc{u.def("asgm", SRef, v.T), "map entries"})
			continue
		}
		fr.elemBases = append(fr.elemBases, u.def("elb", SInt, "(sbase "+v.T+")"))
	}
	for _, h := range fc.Havoc {
		if h == "*" {
			fr.assignAll = true
		}
	}
	// snapshot entry state again (assigns evaluation may have declared components)
	fr.entry = st.clone()
	guard, rets, final := fr.run(st)
	for _, lc := range fc.Loops {
		if !lc.Used {
			u.Obls = append(u.Obls, &Obligation{Name: fmt.Sprintf("%s#bind.loop%d", key, lc.N), Func: key, Kind: "bind", Goal: "false", Guard: "true", unit: u,
				Src: fmt.Sprintf("loop contract %d does not bind to a loop", lc.N)})
		}
	}
	// an `at call` assertion constrains calls that go through the callee's contract: one that met no such call says nothing
	for i := range fc.CallAsserts {
		if ca := fc.CallAsserts[i]; !ca.Used {
			u.Obls = append(u.Obls, &Obligation{Name: fmt.Sprintf("%s#bind.atcall(%s)", key, ca.Callee), Func: key, Kind: "bind", Label: ca.Clause.Label, Goal: "false", Guard: "true", unit: u,
				Src: fmt.Sprintf("`at call %s` matches no call through a contract (no such call, or the callee has no contract and is inlined)", ca.Callee)})
		}
	}
	// postconditions
	sig := fn.Signature
	_ = rets
	if sig.Results().Len() != len(fc.Results) && len(fc.Results) > 0 {
		u.unsupported("%s: contract names %d results, function has %d", key, len(fc.Results), sig.Results().Len())
	}
	_ = final
	u.cover(key, "return", p.pos(fn.Pos()), guard)
	for ri := range fr.rets {
		r := &fr.rets[ri]
		pv := map[string]Val{}
		for n, v := range fr.cvars {
			pv[n] = v
		}
		for i, n := range fc.Results {
			if i < len(r.vals) {
				pv[n] = r.vals[i]
			}
		}
		renv := &Env{u: u, vars: pv, st: r.st, old: fr.entry, pkg: u.curPkg}
		for _, es := range retEmits {
			var evs []Val
			for _, a := range es.Args {
				v, err := renv.EvalVal(a)
				if err != nil {
					return u, fmt.Errorf("%s: emit %s: %v", key, es.Kind, err)
				}
				evs = append(evs, v)
			}
			if es.When != nil {
				w, err := renv.EvalBool(es.When)
				if err != nil {
					return u, fmt.Errorf("%s: emit %s: %v", key, es.Kind, err)
				}
				s2 := r.st.clone()
				u.emitEvent(s2, es.Kind, evs)
				g := r.guard
				m := u.merge([]edgeState{{u.def("g", SBool, and(g, w)), s2}, {u.def("g", SBool, and(g, not(w))), r.st.clone()}}, "emit")
				r.st = m
				renv.st = m
			} else {
				u.emitEvent(r.st, es.Kind, evs)
			}
		}
	}
	// event frame: callers havoc only the event kinds the contract lists (`emits`, `emit`), so at every return the
	// count of any other kind must be what it was at entry (ghost kinds the engine emits by itself are included:
	// Spawn, Close, ChanSend, MapGet_... all go through emitEvent).
	if !fr.assignAll {
		listed := map[string]bool{}
		for _, k := range fc.Emits {
			listed[k] = true
		}
		for _, es := range fc.EmitEvents {
			listed[es.Kind] = true
		}
		var kinds []string
		seen := map[string]bool{}
		for _, r := range fr.rets {
			for comp := range r.st.comp {
				if strings.HasPrefix(comp, "cnt_") && !listed[comp[4:]] && !seen[comp] {
					seen[comp] = true
					kinds = append(kinds, comp[4:])
				}
			}
		}
		sort.Strings(kinds)
		for _, kind := range kinds {
			for k, r := range fr.rets {
				now, was := u.get(r.st, "cnt_"+kind), u.get(fr.entry, "cnt_"+kind)
				if now == was {
					continue
				}
				u.obligeCase(fmt.Sprintf("%s#frame.emits(%s)", key, kind), key, "frame", "", p.pos(fn.Pos()),
					fmt.Sprintf("event %s is not in the contract's emits list: none may be emitted", kind), r.guard, eq(now, was), nil, k)
			}
		}
	}
	// every return path must be reachable in the model (a contradiction among assumed contracts would make the
	// postconditions of that path vacuous)
	for k, r := range fr.rets {
		u.Obls = append(u.Obls, &Obligation{Name: fmt.Sprintf("%s#cover.ret%d", key, k), Func: key, Kind: "cover", Pos: p.pos(fn.Pos()), Prefix: len(u.cmds), Guard: r.guard, Goal: "false", Cover: true, unit: u})
	}
	// postconditions, one case per return path (no merged heaps in the query)
	used := map[string]int{}
	for _, e := range fc.Ensures {
		name := key + "#post"
		if e.Label != "" {
			name += "[" + e.Label + "]"
		}
		used[name]++
		if used[name] > 1 || e.Label == "" {
			name = fmt.Sprintf("%s@%d", name, used[name])
		}
		if len(fr.rets) == 0 {
			u.obligeCase(name, key, "post", e.Label, p.pos(fn.Pos()), e.Src, "false", "true", nil, 0)
		}
		for k, r := range fr.rets {
			pv := map[string]Val{}
			for n, v := range fr.cvars {
				pv[n] = v
			}
			for i, n := range fc.Results {
				if i < len(r.vals) {
					pv[n] = r.vals[i]
				}
			}
			if len(r.vals) > 0 {
				pv["result"] = r.vals[0]
			}
			penv := &Env{u: u, vars: pv, st: r.st, old: fr.entry, pkg: u.curPkg}
			t, rec, err := penv.EvalClause(e.Expr)
			if err != nil {
				return u, fmt.Errorf("%s: ensures %q: %v", key, e.Src, err)
			}
			u.obligeCase(name, key, "post", e.Label, p.pos(fn.Pos()), e.Src, r.guard, t, rec, k)
		}
	}
	u.strSMT = u.usesStrOps || fc.ExactStrings
	return u, nil
}

// VerifyLemma generates the obligation of a lemma (a closed formula over spec functions and preds).
func (p *Program) VerifyLemma(ax *Axiom) (*Unit, error) {
	u := newUnit(p, "lemma:"+ax.Label)
	u.curPkg = p.TPkgs["stanza"]
	// declare every spec function the lemma mentions so that axioms are in scope
	for _, f := range axiomFuncs(ax.Body, p.CS) {
		u.declareSpec(p.CS.Specs[f])
	}
	// the lemma's universally quantified variables become fresh constants (skolemisation of the negated goal)
	env := &Env{u: u, vars: map[string]Val{}, st: &State{guard: "true", comp: map[string]Term{}}, pkg: u.curPkg}
	for _, v := range ax.Vars {
		c := u.fresh("l_"+v.Name, v.Sort)
		env.vars[v.Name] = specVal(c, v.Sort)
		if v.Sort == SStr {
			u.strLen(c, true)
		}
	}
	t, err := env.EvalBool(ax.Body)
	if err != nil {
		return u, err
	}
	u.oblige("lemma", "lemma", ax.Label, fmt.Sprintf("%s:%d", ax.File, ax.Line), ax.Src, "true", t)
	u.strSMT = u.usesStrOps
	return u, nil
}

var _ = types.Typ

// mentions reports whether an expression refers to one of the given names.
func mentions(e Expr, names []string) bool {
	found := false
	var walk func(Expr)
	walk = func(e Expr) {
		switch n := e.(type) {
		case EIdent:
			for _, nm := range names {
				if n.Name == nm || n.Name == "result" {
					found = true
				}
			}
		case EUnary:
			walk(n.X)
		case EBinary:
			walk(n.L)
			walk(n.R)
		case ESel:
			walk(n.X)
		case EIndex:
			walk(n.X)
			walk(n.I)
		case ESlice:
			walk(n.X)
		case ECall:
			for _, a := range n.Args {
				walk(a)
			}
		case EAssert:
			walk(n.X)
		case EPtrType:
			walk(n.X)
		}
	}
	walk(e)
	return found
}
