package vc

import (
	"go/types"
	"sort"

	"golang.org/x/tools/go/ssa"
	"golang.org/x/tools/go/ssa/ssautil"
)

// FrameScan lists the /repo functions that contain a store to field `field` of struct type `structKey`
// (e.g. "xmpp.SMState", "Inbound"): either to the field itself or to a whole struct of that type held in a field.
// It is the package-wide check that an object invariant's field is written only by the functions under contract.
func (p *Program) FrameScan(structKey, field string) []string {
	found := map[string]bool{}
	for f := range ssautil.AllFunctions(p.Prog) {
		if !p.InRepo(f) || f.Blocks == nil {
			continue
		}
		for _, b := range f.Blocks {
			for _, ins := range b.Instrs {
				st, ok := ins.(*ssa.Store)
				if !ok {
					continue
				}
				fa, ok := st.Addr.(*ssa.FieldAddr)
				if !ok {
					continue
				}
				if _, local := fa.X.(*ssa.Alloc); local {
					continue // a composite literal / local variable being built, not shared state
				}
				cont := fa.X.Type().Underlying().(*types.Pointer).Elem()
				cs, ok := cont.Underlying().(*types.Struct)
				if !ok {
					continue
				}
				ft := cs.Field(fa.Field)
				if TypeKey(cont) == structKey && ft.Name() == field {
					found[FuncKey(f)] = true
				}
				if TypeKey(ft.Type()) == structKey {
					// whole-struct store into a field of that type
					found[FuncKey(f)] = true
				}
			}
		}
	}
	var out []string
	for k := range found {
		out = append(out, k)
	}
	sort.Strings(out)
	return out
}

// UseScan lists the /repo functions that take the address of (or read) field `field` of struct type `structKey` at all.
// It is the package-wide check behind a `guarded` declaration: the lock-held obligations are generated only in
// functions under contract, so no other function may touch the field.
func (p *Program) UseScan(structKey, field string) []string {
	found := map[string]bool{}
	for f := range ssautil.AllFunctions(p.Prog) {
		if !p.InRepo(f) || f.Blocks == nil {
			continue
		}
		for _, b := range f.Blocks {
			for _, ins := range b.Instrs {
				var cont types.Type
				var idx int
				switch x := ins.(type) {
				case *ssa.FieldAddr:
					cont, idx = x.X.Type().Underlying().(*types.Pointer).Elem(), x.Field
				case *ssa.Field:
					cont, idx = x.X.Type(), x.Field
				default:
					continue
				}
				cs, ok := cont.Underlying().(*types.Struct)
				if !ok {
					continue
				}
				if TypeKey(cont) == structKey && cs.Field(idx).Name() == field {
					found[FuncKey(f)] = true
				}
			}
		}
	}
	var out []string
	for k := range found {
		out = append(out, k)
	}
	sort.Strings(out)
	return out
}

// UnlistedUsers filters the result of UseScan: a user that is not in `allowed` is still acceptable when it is a helper
// that is verified in the context of an allowed function - it has no contract of its own (so it is inlined at its call
// sites), it is only ever called directly, never spawned or used as a value, and every caller is allowed or itself such
// a helper. What remains is returned.
func (p *Program) UnlistedUsers(users []string, allowed map[string]bool) []string {
	ok := map[string]bool{}
	for a := range allowed {
		ok[a] = true
	}
	callers := map[string]map[string]bool{} // callee key -> caller keys (direct static calls)
	tainted := map[string]bool{}            // used as a value, deferred/spawned indirectly, or called dynamically
	for f := range ssautil.AllFunctions(p.Prog) {
		if !p.InRepo(f) || f.Blocks == nil {
			continue
		}
		fk := FuncKey(f)
		for _, b := range f.Blocks {
			for _, ins := range b.Instrs {
				var direct *ssa.Function
				switch x := ins.(type) {
				case *ssa.Call:
					direct = x.Common().StaticCallee()
				case *ssa.Defer:
					direct = x.Common().StaticCallee()
				case *ssa.Go:
					if g := x.Common().StaticCallee(); g != nil {
						tainted[FuncKey(g)] = true
					}
				}
				if direct != nil {
					k := FuncKey(direct)
					if callers[k] == nil {
						callers[k] = map[string]bool{}
					}
					callers[k][fk] = true
				}
				// any other mention of a function value
				for _, op := range ins.Operands(nil) {
					if op == nil || *op == nil {
						continue
					}
					if g, isFn := (*op).(*ssa.Function); isFn && g != direct {
						tainted[FuncKey(g)] = true
					}
				}
			}
		}
	}
	changed := true
	for changed {
		changed = false
		for _, u := range users {
			if ok[u] || tainted[u] {
				continue
			}
			if _, contracted := p.CS.Funcs[u]; contracted {
				continue
			}
			cs := callers[u]
			if len(cs) == 0 {
				continue
			}
			all := true
			for c := range cs {
				if !ok[c] {
					all = false
				}
			}
			if all {
				ok[u] = true
				changed = true
			}
		}
	}
	var bad []string
	for _, u := range users {
		if !ok[u] {
			bad = append(bad, u)
		}
	}
	return bad
}

// CallScan lists the /repo functions that mention function `calleeKey` at all: a direct call, a deferred or spawned
// call, or a use as a value. It is the package-wide check behind `at call` assertions: they constrain the arguments of
// the calls inside functions under contract, so no other function may call it.
func (p *Program) CallScan(calleeKey string) []string {
	found := map[string]bool{}
	for f := range ssautil.AllFunctions(p.Prog) {
		if !p.InRepo(f) || f.Blocks == nil {
			continue
		}
		for _, b := range f.Blocks {
			for _, ins := range b.Instrs {
				for _, op := range ins.Operands(nil) {
					if op == nil || *op == nil {
						continue
					}
					if g, isFn := (*op).(*ssa.Function); isFn && FuncKey(g) == calleeKey {
						found[FuncKey(f)] = true
					}
				}
			}
		}
	}
	var out []string
	for k := range found {
		out = append(out, k)
	}
	sort.Strings(out)
	return out
}

// GlobalStores lists the /repo functions other than package initialisers that store to a package-level variable.
func (p *Program) GlobalStores() map[string][]string {
	out := map[string][]string{}
	for f := range ssautil.AllFunctions(p.Prog) {
		if !p.InRepo(f) || f.Blocks == nil || f.Name() == "init" || f.Synthetic != "" {
			continue
		}
		for _, b := range f.Blocks {
			for _, ins := range b.Instrs {
				if st, ok := ins.(*ssa.Store); ok {
					if g, ok := st.Addr.(*ssa.Global); ok {
						out[g.Name()] = append(out[g.Name()], FuncKey(f))
					}
				}
			}
		}
	}
	return out
}
