package vc

import (
	"go/types"
	"sort"

	"golang.org/x/tools/go/ssa"
	"golang.org/x/tools/go/ssa/ssautil"
)

// FrameScan lists the /repo functions that contain a store to field `field` of struct type `structKey`
// (e.g. "xmpp.SMState", "Inbound"): either to the field itself or to a whole struct of that type held in a field.
// It is the package-wide check that an object invariant's field is written only by the functions under contract.
func (p *Program) FrameScan(structKey, field string) []string {
	found := map[string]bool{}
	for f := range ssautil.AllFunctions(p.Prog) {
		if !p.InRepo(f) || f.Blocks == nil {
			continue
		}
		for _, b := range f.Blocks {
			for _, ins := range b.Instrs {
				st, ok := ins.(*ssa.Store)
				if !ok {
					continue
				}
				fa, ok := st.Addr.(*ssa.FieldAddr)
				if !ok {
					continue
				}
				if _, local := fa.X.(*ssa.Alloc); local {
					continue // a composite literal / local variable being built, not shared state
				}
				cont := fa.X.Type().Underlying().(*types.Pointer).Elem()
				cs, ok := cont.Underlying().(*types.Struct)
				if !ok {
					continue
				}
				ft := cs.Field(fa.Field)
				if TypeKey(cont) == structKey && ft.Name() == field {
					found[FuncKey(f)] = true
				}
				if TypeKey(ft.Type()) == structKey {
					// whole-struct store into a field of that type
					found[FuncKey(f)] = true
				}
			}
		}
	}
	var out []string
	for k := range found {
		out = append(out, k)
	}
	sort.Strings(out)
	return out
}

// UseScan lists the /repo functions that take the address of (or read) field `field` of struct type `structKey` at all.
// It is the package-wide check behind a `guarded` declaration: the lock-held obligations are generated only in
// functions under contract, so no other function may touch the field.
func (p *Program) UseScan(structKey, field string) []string {
	found := map[string]bool{}
	for f := range ssautil.AllFunctions(p.Prog) {
		if !p.InRepo(f) || f.Blocks == nil {
			continue
		}
		for _, b := range f.Blocks {
			for _, ins := range b.Instrs {
				var cont types.Type
				var idx int
				switch x := ins.(type) {
				case *ssa.FieldAddr:
					cont, idx = x.X.Type().Underlying().(*types.Pointer).Elem(), x.Field
				case *ssa.Field:
					cont, idx = x.X.Type(), x.Field
				default:
					continue
				}
				cs, ok := cont.Underlying().(*types.Struct)
				if !ok {
					continue
				}
				if TypeKey(cont) == structKey && cs.Field(idx).Name() == field {
					found[FuncKey(f)] = true
				}
			}
		}
	}
	var out []string
	for k := range found {
		out = append(out, k)
	}
	sort.Strings(out)
	return out
}

// GlobalStores lists the /repo functions other than package initialisers that store to a package-level variable.
func (p *Program) GlobalStores() map[string][]string {
	out := map[string][]string{}
	for f := range ssautil.AllFunctions(p.Prog) {
		if !p.InRepo(f) || f.Blocks == nil || f.Name() == "init" || f.Synthetic != "" {
			continue
		}
		for _, b := range f.Blocks {
			for _, ins := range b.Instrs {
				if st, ok := ins.(*ssa.Store); ok {
					if g, ok := st.Addr.(*ssa.Global); ok {
						out[g.Name()] = append(out[g.Name()], FuncKey(f))
					}
				}
			}
		}
	}
	return out
}
