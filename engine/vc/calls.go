package vc

import (
	"fmt"
	"go/token"
	"go/types"
	"strings"

	"golang.org/x/tools/go/ssa"
)

const maxInlineDepth = 8

func (fr *Frame) resultVals(st *State, sig *types.Signature, hint string) []Val {
	u := fr.u
	var out []Val
	for i := 0; i < sig.Results().Len(); i++ {
		t := sig.Results().At(i).Type()
		v := u.goVal(u.fresh(hint+"_r", u.sorts.sortOf(t)), t)
		u.typeFacts(st, v.T, t)
		out = append(out, v)
	}
	return out
}

// call executes a call instruction and returns its results.
func (fr *Frame) call(st *State, site ssa.Instruction, c *ssa.CallCommon, pos token.Pos) []Val {
	u := fr.u
	var args []Val
	if c.IsInvoke() {
		recv := fr.val(c.Value)
		args = append(args, recv)
		for _, a := range c.Args {
			args = append(args, fr.val(a))
		}
		key := methodKey(c.Method)
		fr.safe(st, "nil", pos, "method call on nil interface", not(eq("(tag "+recv.T+")", "0")))
		// a contract keyed by the receiver's static interface type takes precedence over the declaring interface's
		k2 := "(" + TypeKey(c.Value.Type()) + ")." + c.Method.Name()
		if fc, ok := u.P.CS.Funcs[k2]; ok {
			return fr.contractCall(st, fc, k2, args, c.Signature(), pos)
		}
		if fc, ok := u.P.CS.Funcs[key]; ok {
			return fr.contractCall(st, fc, key, args, c.Signature(), pos)
		}
		return fr.unspecified(st, key, args, c.Signature(), pos)
	}
	for _, a := range c.Args {
		args = append(args, fr.val(a))
	}
	switch callee := c.Value.(type) {
	case *ssa.Builtin:
		return fr.builtin(st, callee, c, args, pos)
	case *ssa.Function:
		fr.guardedLockCall(st, c, pos, true)
		rs := fr.static(st, callee, nil, args, pos)
		fr.guardedLockCall(st, c, pos, false)
		return rs
	case *ssa.MakeClosure:
		var bs []Val
		for _, b := range callee.Bindings {
			bs = append(bs, fr.val(b))
		}
		return fr.static(st, callee.Fn.(*ssa.Function), bs, args, pos)
	}
	// dynamic call through a function value
	fv := fr.val(c.Value)
	if ci, ok := fr.root.closures[fv.T]; ok {
		return fr.static(st, ci.fn, ci.bindings, args, pos)
	}
	key := fr.dynKey(c.Value)
	fr.safe(st, "nil", pos, "call of nil function value", not(eq(fv.T, "null")))
	if fc, ok := u.P.CS.Funcs[key]; ok {
		return fr.contractCall(st, fc, key, args, c.Signature(), pos)
	}
	// try the named function type
	if n, ok := c.Value.Type().(*types.Named); ok {
		k2 := "type:" + TypeKey(n)
		if fc, ok := u.P.CS.Funcs[k2]; ok {
			return fr.contractCall(st, fc, k2, args, c.Signature(), pos)
		}
	}
	return fr.unspecified(st, key, args, c.Signature(), pos)
}

// dynKey names a dynamic callee by where the function value came from.
func (fr *Frame) dynKey(v ssa.Value) string {
	switch x := v.(type) {
	case *ssa.UnOp:
		if fa, ok := x.X.(*ssa.FieldAddr); ok {
			st := fa.X.Type().Underlying().(*types.Pointer).Elem()
			return "field:" + TypeKey(st) + "." + st.Underlying().(*types.Struct).Field(fa.Field).Name()
		}
	case *ssa.Field:
		st := x.X.Type()
		return "field:" + TypeKey(st) + "." + st.Underlying().(*types.Struct).Field(x.Field).Name()
	case *ssa.Parameter:
		return "param:" + FuncKey(x.Parent()) + "." + x.Name()
	case *ssa.Extract, *ssa.Call:
		return "value:" + TypeKey(v.Type())
	}
	return "dynamic:" + TypeKey(v.Type())
}

func (fr *Frame) static(st *State, fn *ssa.Function, bindings []Val, args []Val, pos token.Pos) []Val {
	u := fr.u
	key := FuncKey(fn)
	if fc, ok := u.P.CS.Funcs[key]; ok && !fc.Inline {
		return fr.contractCall(st, fc, key, args, fn.Signature, pos)
	}
	if u.P.InRepo(fn) && fn.Blocks != nil {
		// inline
		for f := fr; f != nil; f = f.parent {
			if f.fn == fn {
				u.unsupported("%s: recursive call to %s needs a contract", fr.oblFn, key)
				return fr.unspecified(st, key, args, fn.Signature, pos)
			}
		}
		if fr.depth >= maxInlineDepth {
			u.unsupported("%s: inlining depth exceeded at %s", fr.oblFn, key)
			return fr.unspecified(st, key, args, fn.Signature, pos)
		}
		return fr.inline(st, fn, bindings, args)
	}
	return fr.unspecified(st, key, args, fn.Signature, pos)
}

func (fr *Frame) inline(st *State, fn *ssa.Function, bindings []Val, args []Val) []Val {
	u := fr.u
	u.stats.inlined++
	if u.Inlined == nil {
		u.Inlined = map[string]bool{}
	}
	u.Inlined[FuncKey(fn)] = true
	nf := &Frame{u: u, fn: fn, oblFn: fr.oblFn + ">" + fn.Name(), vals: map[ssa.Value]Val{}, parent: fr, root: fr.root, depth: fr.depth + 1,
		cvars: map[string]Val{}, closures: fr.root.closures}
	if fc, ok := u.P.CS.Funcs[FuncKey(fn)]; ok {
		nf.contract = fc // loop contracts of an inline function
	}
	for i, p := range fn.Params {
		if i < len(args) {
			nf.vals[p] = args[i]
			nf.cvars[p.Name()] = args[i]
		}
	}
	for i, fv := range fn.FreeVars {
		if i < len(bindings) {
			nf.vals[fv] = bindings[i]
			nf.cvars[fv.Name()] = bindings[i]
		}
	}
	g, rets, final := nf.run(st)
	_ = g
	// control continues only on the paths where the callee returned
	outGuard := final.guard
	*st = *final
	st.guard = outGuard
	return rets
}

// unspecified models a call with no contract: pure if no reference can be reached from the arguments, else havoc everything.
func (fr *Frame) unspecified(st *State, key string, args []Val, sig *types.Signature, pos token.Pos) []Val {
	u := fr.u
	pure := true
	for _, a := range args {
		if a.Typ != nil && !isScalar(a.Typ) {
			pure = false
		}
	}
	if pure {
		u.unspec[key+" (no contract; scalar arguments only, treated as having no effect on the heap)"] = true
	} else {
		u.unspec[key+" (no contract; havocs everything)"] = true
		fr.havocAllKeepLocals(st)
	}
	return fr.resultVals(st, sig, "ext")
}

func isScalar(t types.Type) bool {
	switch x := t.Underlying().(type) {
	case *types.Basic:
		return true
	case *types.Struct:
		for i := 0; i < x.NumFields(); i++ {
			if !isScalar(x.Field(i).Type()) {
				return false
			}
		}
		return true
	}
	return false
}

// contractCall: assert requires, havoc assigns, assume ensures.
func (fr *Frame) contractCall(st *State, fc *FuncContract, key string, args []Val, sig *types.Signature, pos token.Pos) []Val {
	u := fr.u
	if fc.Trusted {
		u.trusted[key] = true
	} else if key != FuncKey(fr.root.fn) {
		u.repoCallees[key] = true
	}
	ord := fr.root.nextCallOrd(key)
	vars := map[string]Val{}
	if len(fc.Params) != len(args) {
		u.unsupported("%s: contract of %s names %d parameters, call has %d", fr.oblFn, key, len(fc.Params), len(args))
	}
	for i, n := range fc.Params {
		if i < len(args) {
			vars[n] = args[i]
		}
	}
	pkg := u.curPkg
	if fc.Pkg != "" {
		if tp, ok := u.P.TPkgs[fc.Pkg]; ok {
			pkg = tp
		}
	}
	pre := st.clone()
	env := &Env{u: u, vars: vars, st: pre, old: pre, pkg: pkg}
	short := key
	for _, r := range fc.Requires {
		t, rec, err := env.EvalClause(r.Expr)
		if err != nil {
			u.unsupported("%s: requires of %s: %v", fr.oblFn, key, err)
			continue
		}
		u.obligeRec(fr.oblFn, fmt.Sprintf("pre(%s)", short), r.Label, fr.pos(pos), r.Src, st.guard, t, rec)
	}
	// caller-side assertions about this call
	for _, ca := range fr.root.callAsserts(key, ord) {
		// names: the callee's parameters (as in its contract) plus the caller's own; old() is the caller's entry state
		cv := map[string]Val{}
		for k, v := range fr.root.cvars {
			cv[k] = v
		}
		for k, v := range vars {
			cv["$"+k] = v
			if _, clash := cv[k]; !clash {
				cv[k] = v
			}
		}
		cenv := &Env{u: u, vars: cv, st: pre, old: fr.root.entry, pkg: pkg}
		t, rec, err := cenv.EvalClause(ca.Clause.Expr)
		if err != nil {
			u.unsupported("%s: at call %s: %v", fr.oblFn, key, err)
			continue
		}
		u.obligeRec(fr.oblFn, fmt.Sprintf("atcall(%s)", short), ca.Clause.Label, fr.pos(pos), ca.Clause.Src, st.guard, t, rec)
	}
	// havoc; allocation may have happened (before anything the callee stored)
	u.havocComp(st, "alloc")
	for _, h := range fc.Havoc {
		if h == "*" {
			fr.havocAllKeepLocals(st)
		} else {
			u.havocComp(st, h)
		}
	}
	for i, loc := range fc.Assigns {
		if id, ok := loc.(EIdent); ok && id.Name == "*" {
			fr.havocAllKeepLocals(st)
			continue
		}
		if pc, ok := loc.(ECall); ok && pc.Fun == "pointee" && len(pc.Args) == 1 {
			// pointee(v): whatever the pointer inside interface value v points to, by the static type at the call site
			v, err := env.EvalVal(pc.Args[0])
			if err == nil && v.DynTyp == nil && v.Sort == SIface {
				// unknown dynamic type: the object the interface value refers to, and nothing else
				root := u.def("objroot", SInt, "(rootid (val "+v.T+"))")
				fr.frameCheck(st, "(val "+v.T+")", pos)
				u.havocObject(st, root)
				continue
			}
			if err != nil || v.DynTyp == nil {
				u.notes = append(u.notes, fmt.Sprintf("%s: pointee() of %s at %s has no static type: everything havocked", fr.oblFn, key, fr.pos(pos)))
				fr.havocAllKeepLocals(st)
				continue
			}
			if pt, ok := v.DynTyp.Underlying().(*types.Pointer); ok {
				if v.Dyn != nil {
					fr.frameCheck(st, v.Dyn.T, pos)
					u.havocPtr(st, *v.Dyn, pt.Elem())
				} else {
					addr := "(val " + v.T + ")"
					fr.frameCheck(st, addr, pos)
					u.havocAt(st, addr, pt.Elem())
				}
			}
			continue
		}
		a, err := func() (v Val, err error) {
			defer func() {
				if r := recover(); r != nil {
					if ee, ok := r.(evalErr); ok {
						err = fmt.Errorf("%s", string(ee))
						return
					}
					panic(r)
				}
			}()
			return env.addrOf(loc), nil
		}()
		if err != nil {
			u.unsupported("%s: assigns of %s: %v", fr.oblFn, key, err)
			continue
		}
		if strings.HasPrefix(a.Sort, "ghostaddr:") {
			parts := strings.SplitN(a.Sort, ":", 3)
			u.setCompSort(parts[1], "(Array Ref "+parts[2]+")")
			u.set(st, parts[1], store(u.get(st, parts[1]), a.T, u.fresh("gh", parts[2])))
			continue
		}
		// the callee's frame must lie inside the caller's
		fr.frameCheck(st, a.T, pos)
		_ = i
		u.havocPtr(st, a, a.Typ.Underlying().(*types.Pointer).Elem())
	}
	for _, el := range fc.Elems {
		v, err := env.EvalVal(el)
		if err != nil {
			u.unsupported("%s: elems of %s: %v", fr.oblFn, key, err)
			continue
		}
		if mt, ok := v.Typ.Underlying().(*types.Map); ok && v.Sort == SRef {
			// elems m: the entries of a map may change
			vs := u.sorts.sortOf(mt.Elem())
			fr.frameMap(st, v.T, pos)
			q := u.fresh("mapd", "(Array Str Bool)")
			u.set(st, "MD_"+vs, store(u.get(st, "MD_"+vs), v.T, q))
			qv := u.fresh("mapv", "(Array Str "+vs+")")
			u.set(st, "MV_"+vs, store(u.get(st, "MV_"+vs), v.T, qv))
			continue
		}
		if v.Sort != SSlice {
			u.unsupported("%s: elems of %s: not a slice", fr.oblFn, key)
			continue
		}
		base := "(sbase " + v.T + ")"
		if isByteSlice(v.Typ) {
			u.set(st, "BS", store(u.get(st, "BS"), base, u.fresh("bs", SStr)))
			continue
		}
		elT := v.Typ.Underlying().(*types.Slice).Elem()
		es := u.sorts.sortOf(elT)
		fr.elemRoot = ""
		if av, err2 := func() (av Val, err error) {
			defer func() {
				if r := recover(); r != nil {
					err = fmt.Errorf("%v", r)
				}
			}()
			return env.addrOf(el), nil
		}(); err2 == nil && av.Sort == SRef {
			root := av.T
			for strings.HasPrefix(root, "(sub ") {
				inner := root[5 : len(root)-1]
				root = inner[:strings.LastIndex(inner, " ")]
			}
			if root != av.T {
				fr.elemRoot = root
			}
		}
		fr.frameElem(st, base, pos)
		fr.elemRoot = ""
		u.set(st, u.elemComp(elT), store(u.get(st, u.elemComp(elT)), base, u.fresh("el", "(Array Int "+es+")")))
	}
	emitted := map[string]bool{}
	for _, es := range fc.EmitEvents {
		emitted[es.Kind] = true
	}
	var hk []string
	for _, k := range fc.Emits {
		if !emitted[k] {
			hk = append(hk, k)
		}
	}
	u.havocEvents(st, hk...)
	rets := fr.resultVals(st, sig, smtIdent(fnShort(key)))
	post := map[string]Val{}
	for k, v := range vars {
		post[k] = v
	}
	for i, n := range fc.Results {
		if i < len(rets) {
			post[n] = rets[i]
		}
	}
	if len(rets) > 0 {
		post["result"] = rets[0]
	}
	penv := &Env{u: u, vars: post, st: st, old: pre, pkg: pkg}
	// events with explicit arguments
	for _, es := range fc.EmitEvents {
		var evs []Val
		ok := true
		for _, a := range es.Args {
			v, err := penv.inState(pre).EvalVal(a)
			if err != nil {
				// may mention results: evaluate in the post-state
				v, err = penv.EvalVal(a)
			}
			if err != nil {
				u.unsupported("%s: emit of %s: %v", fr.oblFn, key, err)
				ok = false
				break
			}
			evs = append(evs, v)
		}
		if !ok {
			continue
		}
		if es.When != nil {
			w, err := penv.EvalBool(es.When)
			if err != nil {
				u.unsupported("%s: emit-when of %s: %v", fr.oblFn, key, err)
				continue
			}
			s2 := st.clone()
			u.emitEvent(s2, es.Kind, evs)
			m := u.merge([]edgeState{{u.def("g", SBool, and(st.guard, w)), s2}, {u.def("g", SBool, and(st.guard, not(w))), st.clone()}}, "emit")
			g := st.guard
			*st = *m
			st.guard = g
			penv.st = st
		} else {
			u.emitEvent(st, es.Kind, evs)
		}
	}
	for _, e := range fc.Ensures {
		t, rec, err := penv.EvalClause(e.Expr)
		if err != nil {
			u.unsupported("%s: ensures of %s: %v", fr.oblFn, key, err)
			continue
		}
		// callee postconditions are visible to every obligation (label scoping applies to the unit's own clauses only)
		u.assumeRec(implies(st.guard, t), rec)
	}
	return rets
}

func fnShort(key string) string {
	if k := strings.LastIndex(key, "."); k >= 0 {
		return key[k+1:]
	}
	return key
}

func (fr *Frame) nextCallOrd(key string) int {
	fr.callOrd[key]++
	return fr.callOrd[key]
}

func (fr *Frame) callAsserts(key string, ord int) []CallAssert {
	if fr.contract == nil {
		return nil
	}
	var out []CallAssert
	for i := range fr.contract.CallAsserts {
		ca := &fr.contract.CallAsserts[i]
		if (ca.Callee == key || fnShort(key) == ca.Callee) && (ca.Ord == 0 || ca.Ord == ord) {
			ca.Used = true
			out = append(out, *ca)
		}
	}
	return out
}

// ---------------------------------------------------------------------------
// builtins

func (fr *Frame) builtin(st *State, b *ssa.Builtin, c *ssa.CallCommon, args []Val, pos token.Pos) []Val {
	u := fr.u
	switch b.Name() {
	case "len":
		a := args[0]
		switch a.Sort {
		case SSlice:
			return []Val{{T: "(slen " + a.T + ")", Sort: SInt, Typ: types.Typ[types.Int]}}
		case SStr:
			return []Val{{T: u.strLen(a.T, true), Sort: SInt, Typ: types.Typ[types.Int]}}
		}
		v := u.fresh("len", SInt)
		u.assume("(>= " + v + " 0)")
		return []Val{{T: v, Sort: SInt, Typ: types.Typ[types.Int]}}
	case "cap":
		a := args[0]
		if a.Sort == SSlice {
			return []Val{{T: "(scap " + a.T + ")", Sort: SInt, Typ: types.Typ[types.Int]}}
		}
		v := u.fresh("cap", SInt)
		u.assume("(>= " + v + " 0)")
		return []Val{{T: v, Sort: SInt, Typ: types.Typ[types.Int]}}
	case "append":
		return []Val{fr.appendOp(st, c, args, pos)}
	case "close":
		if _, ok := u.P.CS.GhostMaps["chanClosed"]; ok {
			// closing a closed channel panics: the channel must be known to be open (ghost chanClosed)
			u.setCompSort("GM_chanClosed", "(Array Ref Bool)")
			fr.safe(st, "close", pos, "close of a channel that is open (not nil, not closed before)", and(not(eq(args[0].T, "null")), not(sel(u.get(st, "GM_chanClosed"), args[0].T))))
			u.set(st, "GM_chanClosed", store(u.get(st, "GM_chanClosed"), args[0].T, "true"))
		}
		u.emitEvent(st, "Close", []Val{args[0]})
		return nil
	case "delete":
		m, k := args[0], args[1]
		mt := c.Args[0].Type().Underlying().(*types.Map)
		vs := u.sorts.sortOf(mt.Elem())
		if u.sorts.sortOf(mt.Key()) != SStr {
			u.unsupported("%s: delete on non-string-keyed map", fr.oblFn)
			return nil
		}
		if g, owner, ok := fr.guardedMap(c.Args[0]); ok {
			had := u.def("had", SBool, and(not(eq(m.T, "null")), sel(sel(u.get(st, "MD_"+vs), m.T), k.T)))
			hv := u.def("hadv", vs, sel(sel(u.get(st, "MV_"+vs), m.T), k.T))
			fr.guardedAccess(st, g, owner, true, pos, "MapDel", []Val{k, {T: had, Sort: SBool, Typ: types.Typ[types.Bool]}, {T: hv, Sort: vs, Typ: mt.Elem()}})
		}
		fr.frameMap(st, m.T, pos)
		MD := u.get(st, "MD_"+vs)
		u.set(st, "MD_"+vs, store(MD, m.T, store(sel(MD, m.T), k.T, "false")))
		return nil
	case "copy":
		dst, src := args[0], args[1]
		srcLen := "(slen " + src.T + ")"
		if src.Sort == SStr {
			srcLen = u.strLen(src.T, true)
		}
		n := u.def("copyn", SInt, "(ite (<= (slen "+dst.T+") "+srcLen+") (slen "+dst.T+") "+srcLen+")")
		if isByteSlice(c.Args[0].Type()) {
			u.set(st, "BS", store(u.get(st, "BS"), "(sbase "+dst.T+")", u.fresh("bs", SStr)))
		} else {
			u.unsupported("%s: copy of non-byte slices at %s", fr.oblFn, fr.pos(pos))
		}
		return []Val{{T: n, Sort: SInt, Typ: types.Typ[types.Int]}}
	case "print", "println":
		return nil
	}
	u.unsupported("%s: builtin %s at %s", fr.oblFn, b.Name(), fr.pos(pos))
	if sig, ok := b.Type().(*types.Signature); ok {
		return fr.resultVals(st, sig, "bi")
	}
	return nil
}

// appendOne appends a single element.
func (fr *Frame) appendOne(st *State, s Term, et types.Type, x Term) Term {
	u := fr.u
	es := u.sorts.sortOf(et)
	comp := u.elemComp(et)
	E := u.get(st, comp)
	a := u.get(st, "alloc")
	nb := u.def("nb", SInt, a)
	u.set(st, "alloc", "(+ "+a+" 1)")
	if fr.curSliceTag != 0 {
		u.assume(implies(st.guard, fmt.Sprintf("(= (basetype %s) %d)", nb, fr.curSliceTag)))
	}
	inplace := u.def("inpl", SBool, "(< (slen "+s+") (scap "+s+"))")
	// copied prefix for the reallocation case
	cp := u.fresh("cp", "(Array Int "+es+")")
	q := u.freshName("q")
	u.assume(fmt.Sprintf("(forall ((%s Int)) (=> (and (<= 0 %s) (< %s (slen %s))) (= (select %s %s) (select (select %s (sbase %s)) (+ (soff %s) %s)))))", q, q, q, s, cp, q, E, s, s, q))
	ncap := u.fresh("ncap", SInt)
	u.assume("(> " + ncap + " (slen " + s + "))")
	e1 := store(E, "(sbase "+s+")", store(sel(E, "(sbase "+s+")"), "(+ (soff "+s+") (slen "+s+"))", x))
	e2 := store(E, nb, store(cp, "(slen "+s+")", x))
	u.set(st, comp, ite(inplace, e1, e2))
	r1 := fmt.Sprintf("(mkSlice (sbase %s) (soff %s) (+ (slen %s) 1) (scap %s))", s, s, s, s)
	r2 := fmt.Sprintf("(mkSlice %s 0 (+ (slen %s) 1) %s)", nb, s, ncap)
	return u.def("app", SSlice, ite(inplace, r1, r2))
}

func (fr *Frame) appendOp(st *State, c *ssa.CallCommon, args []Val, pos token.Pos) Val {
	u := fr.u
	s, v := args[0], args[1]
	st0 := c.Args[0].Type()
	if isByteSlice(st0) {
		u.unsupported("%s: append on []byte at %s", fr.oblFn, fr.pos(pos))
		return u.goVal(u.fresh("app", SSlice), st0)
	}
	et := st0.Underlying().(*types.Slice).Elem()
	es := u.sorts.sortOf(et)
	fr.curSliceTag = u.P.tagOf(types.NewSlice(et))
	defer func() { fr.curSliceTag = 0 }()
	if v.ConstLen > 0 {
		n := v.ConstLen - 1
		cur := s.T
		for i := 0; i < n; i++ {
			x := sel(sel(u.get(st, u.elemComp(et)), "(sbase "+v.T+")"), fmt.Sprintf("(+ (soff %s) %d)", v.T, i))
			cur = fr.appendOne(st, cur, et, u.def("appx", es, x))
		}
		return Val{T: cur, Sort: SSlice, Typ: st0}
	}
	// general case: a fresh backing array holding both parts
	E := u.get(st, u.elemComp(et))
	a := u.get(st, "alloc")
	nb := u.def("nb", SInt, a)
	u.set(st, "alloc", "(+ "+a+" 1)")
	cp := u.fresh("cp", "(Array Int "+es+")")
	q := u.freshName("q")
	u.assume(fmt.Sprintf("(forall ((%s Int)) (=> (and (<= 0 %s) (< %s (slen %s))) (= (select %s %s) (select (select %s (sbase %s)) (+ (soff %s) %s)))))", q, q, q, s.T, cp, q, E, s.T, s.T, q))
	q2 := u.freshName("q")
	u.assume(fmt.Sprintf("(forall ((%s Int)) (=> (and (<= 0 %s) (< %s (slen %s))) (= (select %s (+ (slen %s) %s)) (select (select %s (sbase %s)) (+ (soff %s) %s)))))", q2, q2, q2, v.T, cp, s.T, q2, E, v.T, v.T, q2))
	u.set(st, u.elemComp(et), store(E, nb, cp))
	ncap := u.fresh("ncap", SInt)
	u.assume("(>= " + ncap + " (+ (slen " + s.T + ") (slen " + v.T + ")))")
	u.notes = append(u.notes, fmt.Sprintf("%s: append(s, t...) at %s modelled as always reallocating", fr.oblFn, fr.pos(pos)))
	r := u.def("app", SSlice, fmt.Sprintf("(ite (and (= (slen %s) 0) (= (sbase %s) 0) (= (slen %s) 0)) nilslice (mkSlice %s 0 (+ (slen %s) (slen %s)) %s))", s.T, s.T, v.T, nb, s.T, v.T, ncap))
	return Val{T: r, Sort: SSlice, Typ: st0}
}

// ---------------------------------------------------------------------------
// write sets (for loop havoc)

func (fr *Frame) writeSet(li *loopInfo) map[string]bool {
	ws := map[string]bool{"alloc": true}
	fr.u.curLoopBody = li.body
	fr.u.localWrites = nil
	for b := range li.body {
		fr.u.blockWrites(b, ws, map[*ssa.Function]bool{fr.fn: true}, 0)
	}
	fr.u.curLoopBody = nil
	return ws
}

func (u *Unit) sortsIn(t types.Type, prefix string, ws map[string]bool) {
	if isStructType(t) {
		si := u.sorts.structOf(t)
		if si.opaque {
			return
		}
		for i, f := range si.fields {
			if isStructType(f.typ) {
				u.sortsIn(f.typ, prefix, ws)
			} else if f.sort != SUnit {
				ws[u.fieldComp(t, i)] = true
			}
		}
		return
	}
	s := u.sorts.sortOf(t)
	if s != SUnit {
		ws[prefix+s] = true
	}
}

func (u *Unit) blockWrites(b *ssa.BasicBlock, ws map[string]bool, seen map[*ssa.Function]bool, depth int) {
	for _, ins := range b.Instrs {
		switch x := ins.(type) {
		case *ssa.Store:
			if depth == 0 && u.loopLocal(x.Addr) {
				// a store into a variable allocated inside the loop body: a fresh object in every iteration, no
				// address that existed at the loop head is written
				continue
			}
			if depth == 0 && u.curLoopBody != nil {
				// a store into (a field of) a local variable allocated before the loop: exactly that location changes
				if al, path, ok := localPath(x.Addr); ok && !u.curLoopBody[al.Block()] {
					u.localWrites = append(u.localWrites, localWrite{al, path, x.Val.Type()})
					continue
				}
			}
			if isElemAddr(x.Addr) {
				et := elemTypeOf(x.Addr)
				if et != nil {
					ws[u.elemComp(et)] = true
				}
			} else if fa, ok := x.Addr.(*ssa.FieldAddr); ok {
				stT := fa.X.Type().Underlying().(*types.Pointer).Elem()
				if isStructType(x.Val.Type()) {
					u.sortsIn(x.Val.Type(), "H_", ws)
				} else if u.sorts.sortOf(x.Val.Type()) != SUnit && !u.sorts.structOf(stT).opaque {
					ws[u.fieldComp(stT, fa.Field)] = true
				}
			} else {
				u.sortsIn(x.Val.Type(), "H_", ws)
			}
		case *ssa.MapUpdate:
			mt := x.Map.Type().Underlying().(*types.Map)
			vs := u.sorts.sortOf(mt.Elem())
			ws["MD_"+vs] = true
			ws["MV_"+vs] = true
			if f := guardedFieldName(u, x.Map); f != "" {
				ws["ev:MapSet_"+f] = true
			}
		case *ssa.Lookup:
			if f := guardedFieldName(u, x.X); f != "" {
				ws["ev:MapGet_"+f] = true
			}
		case *ssa.Alloc:
			if depth == 0 && u.curLoopBody != nil && u.curLoopBody[x.Block()] {
				continue // fresh object: zero-initialising it writes no existing address
			}
			et := x.Type().Underlying().(*types.Pointer).Elem()
			if arr, ok := et.Underlying().(*types.Array); ok {
				ws[u.elemComp(arr.Elem())] = true
			} else {
				u.sortsIn(et, "H_", ws)
			}
		case *ssa.MakeSlice:
			if isByteSlice(x.Type()) {
				ws["BS"] = true
			} else {
				ws[u.elemComp(x.Type().Underlying().(*types.Slice).Elem())] = true
			}
		case *ssa.MakeMap:
			ws["MD_"+u.sorts.sortOf(x.Type().Underlying().(*types.Map).Elem())] = true
		case *ssa.Send:
			ws["ev:ChanSend"] = true
			ws["ev:ChanSend_"+chanElemName(u, x.X.Type())] = true
		case *ssa.UnOp:
			if x.Op == token.ARROW {
				ws["ev:ChanRecv"] = true
			}
		case *ssa.Select:
			ws["ev:Select"] = true
			ws["ev:Selected"] = true
		case *ssa.Go:
			name := "dyn"
			if f := x.Common().StaticCallee(); f != nil {
				name = f.Name()
			} else if x.Common().IsInvoke() {
				name = x.Common().Method.Name()
			}
			ws["ev:Spawn_"+smtIdent(name)] = true
			ws["ev:Spawn"] = true
		case *ssa.Defer:
			u.callWrites(x.Common(), ws, seen, depth)
		case *ssa.Call:
			u.callWrites(x.Common(), ws, seen, depth)
		}
	}
}

func isElemAddr(v ssa.Value) bool {
	switch x := v.(type) {
	case *ssa.IndexAddr:
		return true
	case *ssa.FieldAddr:
		return isElemAddr(x.X)
	}
	return false
}

func elemTypeOf(v ssa.Value) types.Type {
	switch x := v.(type) {
	case *ssa.IndexAddr:
		switch t := x.X.Type().Underlying().(type) {
		case *types.Slice:
			return t.Elem()
		case *types.Pointer:
			if a, ok := t.Elem().Underlying().(*types.Array); ok {
				return a.Elem()
			}
		}
	case *ssa.FieldAddr:
		return elemTypeOf(x.X)
	}
	return nil
}

// staticType resolves the Go type of a location expression from the parameter types alone.
func (u *Unit) staticType(e Expr, vars map[string]types.Type) types.Type {
	switch n := e.(type) {
	case EIdent:
		return vars[n.Name]
	case EPtrType:
		t := u.staticType(n.X, vars)
		if t == nil {
			return nil
		}
		if p, ok := t.Underlying().(*types.Pointer); ok {
			return p.Elem()
		}
	case ESel:
		t := u.staticType(n.X, vars)
		if t == nil {
			return nil
		}
		if p, ok := t.Underlying().(*types.Pointer); ok {
			t = p.Elem()
		}
		if _, ok := u.P.CS.Ghosts[TypeKey(t)+"."+n.Name]; ok {
			return nil
		}
		if st, ok := t.Underlying().(*types.Struct); ok {
			if _, ft := fieldPath(st, n.Name); ft != nil {
				return ft
			}
		}
	case EIndex:
		t := u.staticType(n.X, vars)
		if t == nil {
			return nil
		}
		if sl, ok := t.Underlying().(*types.Slice); ok {
			return sl.Elem()
		}
	case EAssert:
		for _, pk := range []*types.Package{u.curPkg, u.P.TPkgs["xmpp"], u.P.TPkgs["stanza"]} {
			if tv, err := (&Env{u: u, vars: map[string]Val{}, st: &State{guard: "true", comp: map[string]Term{}}, pkg: pk}).EvalVal(n.T); err == nil && tv.IsType {
				return tv.Typ
			}
		}
	case ECall:
		if n.Fun == "ite" && len(n.Args) == 3 {
			if t := u.staticType(n.Args[1], vars); t != nil {
				return t
			}
			return u.staticType(n.Args[2], vars)
		}
		if p, ok := u.P.CS.Preds[n.Fun]; ok && len(p.Params) == len(n.Args) {
			pv := map[string]types.Type{}
			for i, a := range n.Args {
				pv[p.Params[i]] = u.staticType(a, vars)
			}
			return u.staticType(p.Body, pv)
		}
	}
	return nil
}

func (u *Unit) contractWrites(fc *FuncContract, ws map[string]bool, ptypes []types.Type) {
	for _, h := range fc.Havoc {
		ws[h] = true
	}
	for _, k := range fc.Emits {
		ws["ev:"+k] = true
	}
	vars := map[string]types.Type{}
	for i, n := range fc.Params {
		if i < len(ptypes) {
			vars[n] = ptypes[i]
		}
	}
	for _, a := range fc.Assigns {
		if id, ok := a.(EIdent); ok && id.Name == "*" {
			ws["*"] = true
			continue
		}
		if t := u.staticType(a, vars); t != nil {
			if sel, ok := a.(ESel); ok && !isStructType(t) {
				// a field of primitive type: exactly one component
				ct := u.staticType(sel.X, vars)
				if ct != nil {
					if p, ok := ct.Underlying().(*types.Pointer); ok {
						ct = p.Elem()
					}
					if stt, ok := ct.Underlying().(*types.Struct); ok {
						if path, _ := fieldPath(stt, sel.Name); path != nil {
							for _, i := range path[:len(path)-1] {
								ct = u.sorts.structOf(ct).fields[i].typ
							}
							if u.sorts.sortOf(t) != SUnit {
								ws[u.fieldComp(ct, path[len(path)-1])] = true
							}
							continue
						}
					}
				}
			}
			u.sortsIn(t, "H_", ws)
			continue
		}
		if c, ok := a.(ECall); ok {
			if c.Fun == "pointee" {
				u.allHeap(ws)
				continue
			}
			if _, isG := u.P.CS.GhostMaps[c.Fun]; isG {
				ws["GM_"+c.Fun] = true
				continue
			}
		}
		// unknown type (ghost field or unresolved): be conservative
		u.allHeap(ws)
		for k := range u.compSort {
			if strings.HasPrefix(k, "G_") {
				ws[k] = true
			}
		}
	}
	for _, el := range fc.Elems {
		if t := u.staticType(el, vars); t != nil {
			if mt, ok := t.Underlying().(*types.Map); ok {
				ws["MD_"+u.sorts.sortOf(mt.Elem())] = true
				ws["MV_"+u.sorts.sortOf(mt.Elem())] = true
				continue
			}
			if isByteSlice(t) {
				ws["BS"] = true
			} else if sl, ok := t.Underlying().(*types.Slice); ok {
				ws[u.elemComp(sl.Elem())] = true
			}
			continue
		}
		for k := range u.elemComps {
			ws[k] = true
		}
		ws["BS"] = true
	}
}

func sigTypes(sig *types.Signature, recv types.Type) []types.Type {
	var out []types.Type
	if recv != nil {
		out = append(out, recv)
	} else if sig.Recv() != nil {
		out = append(out, sig.Recv().Type())
	}
	for i := 0; i < sig.Params().Len(); i++ {
		out = append(out, sig.Params().At(i).Type())
	}
	return out
}

func (u *Unit) callWrites(c *ssa.CallCommon, ws map[string]bool, seen map[*ssa.Function]bool, depth int) {
	if c.IsInvoke() {
		if fc, ok := u.P.CS.Funcs["("+TypeKey(c.Value.Type())+")."+c.Method.Name()]; ok {
			u.contractWrites(fc, ws, sigTypes(c.Signature(), c.Value.Type()))
			return
		}
		if fc, ok := u.P.CS.Funcs[methodKey(c.Method)]; ok {
			u.contractWrites(fc, ws, sigTypes(c.Signature(), c.Value.Type()))
		} else {
			ws["*"] = true
		}
		return
	}
	switch callee := c.Value.(type) {
	case *ssa.Builtin:
		switch callee.Name() {
		case "append":
			if s, ok := c.Args[0].Type().Underlying().(*types.Slice); ok {
				ws[u.elemComp(s.Elem())] = true
			}
		case "close":
			ws["ev:Close"] = true
		case "delete":
			mt := c.Args[0].Type().Underlying().(*types.Map)
			ws["MD_"+u.sorts.sortOf(mt.Elem())] = true
			if f := guardedFieldName(u, c.Args[0]); f != "" {
				ws["ev:MapDel_"+f] = true
			}
		case "copy":
			ws["BS"] = true
		}
		return
	}
	var fn *ssa.Function
	switch callee := c.Value.(type) {
	case *ssa.Function:
		fn = callee
	case *ssa.MakeClosure:
		fn = callee.Fn.(*ssa.Function)
	}
	if fn == nil {
		// dynamic: contract by key?
		ws["*"] = true
		return
	}
	key := FuncKey(fn)
	if fc, ok := u.P.CS.Funcs[key]; ok && !fc.Inline {
		var pts []types.Type
		for _, p := range fn.Params {
			pts = append(pts, p.Type())
		}
		u.contractWrites(fc, ws, pts)
		return
	}
	if u.P.InRepo(fn) && fn.Blocks != nil && !seen[fn] && depth < maxInlineDepth {
		seen[fn] = true
		for _, b := range fn.Blocks {
			u.blockWrites(b, ws, seen, depth+1)
		}
		return
	}
	// unspecified external
	pure := true
	for _, a := range c.Args {
		if !isScalar(a.Type()) {
			pure = false
		}
	}
	if !pure {
		ws["*"] = true
	}
}

// allHeap marks the whole heap as written (components not yet known included: the caller havocs everything).
func (u *Unit) allHeap(ws map[string]bool) {
	ws["*"] = true
}

// loopLocal reports whether an address is (a field of) a variable allocated inside the loop whose write set is
// being computed.
func (u *Unit) loopLocal(v ssa.Value) bool {
	if u.curLoopBody == nil {
		return false
	}
	for {
		switch x := v.(type) {
		case *ssa.FieldAddr:
			v = x.X
		case *ssa.Alloc:
			if _, isArr := x.Type().Underlying().(*types.Pointer).Elem().Underlying().(*types.Array); isArr {
				return false
			}
			return u.curLoopBody[x.Block()]
		default:
			return false
		}
	}
}

type localWrite struct {
	alloc *ssa.Alloc
	path  []int
	typ   types.Type
}

// localPath decomposes an address into a local variable and a field path.
func localPath(v ssa.Value) (*ssa.Alloc, []int, bool) {
	var path []int
	for {
		switch x := v.(type) {
		case *ssa.FieldAddr:
			path = append([]int{x.Field}, path...)
			v = x.X
		case *ssa.Alloc:
			if _, isArr := x.Type().Underlying().(*types.Pointer).Elem().Underlying().(*types.Array); isArr {
				return nil, nil, false
			}
			return x, path, true
		default:
			return nil, nil, false
		}
	}
}
