package vc

import (
	"fmt"
	"go/token"
	"go/types"
	"sort"
	"strings"

	"golang.org/x/tools/go/ssa"
)

type deferred struct {
	call  *ssa.Defer
	block *ssa.BasicBlock
	guard Term
}

type loopInfo struct {
	header *ssa.BasicBlock
	body   map[*ssa.BasicBlock]bool
	ord    int
	lc     *LoopContract
	phiHdr map[*ssa.Phi]Term
	hdrSt  *State
	entrySt *State
}

type retInfo struct {
	guard Term
	vals  []Val
	st    *State
}

// Frame is one activation being executed symbolically (the unit's function, or an inlined callee).
type Frame struct {
	u        *Unit
	fn       *ssa.Function
	oblFn    string
	vals     map[ssa.Value]Val
	contract *FuncContract
	entry    *State
	cvars    map[string]Val // contract-visible names (params, free variables)
	parent   *Frame
	root     *Frame
	depth    int
	defers   []deferred
	loops    map[*ssa.BasicBlock]*loopInfo
	edges    map[[2]int]edgeState
	rets     []retInfo
	assignLocs []assignLoc // top frame only: evaluated assigns clauses
	assignAll  bool
	elemBases  []Term
	callOrd  map[string]int
	closures map[Term]closureInfo
	curSliceTag int
	elemRoot Term
}

type assignLoc struct {
	addr Term
	src  string
}

type closureInfo struct {
	fn       *ssa.Function
	bindings []Val
}

func (fr *Frame) pos(p token.Pos) string { return fr.u.P.pos(p) }

func (fr *Frame) val(v ssa.Value) Val {
	u := fr.u
	switch x := v.(type) {
	case *ssa.Const:
		if x.Value == nil {
			t := x.Type()
			if b, ok := t.Underlying().(*types.Basic); ok && b.Kind() == types.UntypedNil {
				return Val{T: "null", Sort: SRef, Typ: t}
			}
			zv := u.goVal(u.sorts.zero(t), t)
			zv.Zero = true
			return zv
		}
		return u.constVal(x.Value, x.Type())
	case *ssa.Global:
		name := x.Name()
		if x.Pkg != nil {
			name = x.Pkg.Pkg.Path() + "." + name
		}
		return Val{T: u.globalAddr(name), Sort: SRef, Typ: x.Type()}
	case *ssa.Function:
		return Val{T: u.globalAddr("func:" + FuncKey(x)), Sort: SRef, Typ: x.Type()}
	}
	if val, ok := fr.vals[v]; ok {
		return val
	}
	u.unsupported("%s: value %s (%T) used before definition", fr.oblFn, v.Name(), v)
	t := v.Type()
	return u.goVal(u.fresh("undef", u.sorts.sortOf(t)), t)
}

func (fr *Frame) setVal(st *State, v ssa.Value, t Term) Val {
	u := fr.u
	typ := v.Type()
	s := u.sorts.sortOf(typ)
	val := Val{T: u.def(fr.fn.Name()+"_"+v.Name(), s, t), Typ: typ, Sort: s}
	fr.vals[v] = val
	return val
}

// findLoops computes natural loops from back edges (target dominates source).
func (fr *Frame) findLoops() {
	fr.loops = map[*ssa.BasicBlock]*loopInfo{}
	var headers []*ssa.BasicBlock
	for _, b := range fr.fn.Blocks {
		for _, s := range b.Succs {
			if s.Dominates(b) {
				li := fr.loops[s]
				if li == nil {
					li = &loopInfo{header: s, body: map[*ssa.BasicBlock]bool{s: true}}
					fr.loops[s] = li
					headers = append(headers, s)
				}
				// natural loop of back edge b->s
				var stack []*ssa.BasicBlock
				if !li.body[b] {
					li.body[b] = true
					stack = append(stack, b)
				}
				for len(stack) > 0 {
					n := stack[len(stack)-1]
					stack = stack[:len(stack)-1]
					for _, p := range n.Preds {
						if !li.body[p] {
							li.body[p] = true
							stack = append(stack, p)
						}
					}
				}
			}
		}
	}
	sort.Slice(headers, func(i, j int) bool { return headers[i].Index < headers[j].Index })
	for i, h := range headers {
		li := fr.loops[h]
		li.ord = i + 1
		if fr.contract != nil {
			li.lc = fr.contract.Loops[li.ord]
		}
		if li.lc == nil {
			if lc, ok := fr.u.P.CS.Funcs[FuncKey(fr.fn)]; ok {
				li.lc = lc.Loops[li.ord]
			}
		}
		if li.lc != nil {
			li.lc.Used = true
		}
	}
}

func (fr *Frame) isBackEdge(from, to *ssa.BasicBlock) bool { return to.Dominates(from) }

func (fr *Frame) rpo() []*ssa.BasicBlock {
	seen := map[*ssa.BasicBlock]bool{}
	var post []*ssa.BasicBlock
	var dfs func(b *ssa.BasicBlock)
	dfs = func(b *ssa.BasicBlock) {
		seen[b] = true
		for i := len(b.Succs) - 1; i >= 0; i-- {
			s := b.Succs[i]
			if fr.isBackEdge(b, s) || seen[s] {
				continue
			}
			dfs(s)
		}
		post = append(post, b)
	}
	dfs(fr.fn.Blocks[0])
	for i, j := 0, len(post)-1; i < j; i, j = i+1, j-1 {
		post[i], post[j] = post[j], post[i]
	}
	return post
}

// run executes the body from the given entry state and returns the merged return.
func (fr *Frame) run(entry *State) (Term, []Val, *State) {
	u := fr.u
	fr.findLoops()
	fr.edges = map[[2]int]edgeState{}
	fr.callOrd = map[string]int{}
	if fr.closures == nil {
		fr.closures = map[Term]closureInfo{}
	}
	for _, b := range fr.rpo() {
		var st *State
		if b.Index == 0 {
			st = entry.clone()
		} else {
			var in []edgeState
			var inPreds []*ssa.BasicBlock
			for _, p := range b.Preds {
				if fr.isBackEdge(p, b) {
					continue
				}
				if e, ok := fr.edges[[2]int{p.Index, b.Index}]; ok {
					in = append(in, e)
					inPreds = append(inPreds, p)
				}
			}
			if len(in) == 0 {
				continue // unreachable
			}
			st = u.merge(in, fmt.Sprintf("%s_b%d", fr.fn.Name(), b.Index))
			// phis
			if li := fr.loops[b]; li != nil {
				st = fr.enterLoop(li, b, st, in, inPreds)
			} else {
				for _, ins := range b.Instrs {
					phi, ok := ins.(*ssa.Phi)
					if !ok {
						break
					}
					fr.setVal(st, phi, fr.phiTerm(phi, b, in, inPreds))
				}
			}
		}
		fr.execBlock(b, st)
	}
	// merge returns
	if len(fr.rets) == 0 {
		return "false", nil, entry.clone()
	}
	var es []edgeState
	for _, r := range fr.rets {
		es = append(es, edgeState{r.guard, r.st})
	}
	final := u.merge(es, fr.fn.Name()+"_ret")
	n := len(fr.rets[0].vals)
	out := make([]Val, n)
	for i := 0; i < n; i++ {
		t := fr.rets[len(fr.rets)-1].vals[i].T
		for k := len(fr.rets) - 2; k >= 0; k-- {
			t = ite(fr.rets[k].guard, fr.rets[k].vals[i].T, t)
		}
		v := fr.rets[0].vals[i]
		out[i] = Val{T: u.def(fr.fn.Name()+"_res", v.Sort, t), Typ: v.Typ, Sort: v.Sort}
	}
	return final.guard, out, final
}

func (fr *Frame) phiTerm(phi *ssa.Phi, b *ssa.BasicBlock, in []edgeState, inPreds []*ssa.BasicBlock) Term {
	var t Term
	first := true
	for k := len(in) - 1; k >= 0; k-- {
		// find operand index for this pred
		var ev Term
		for pi, p := range b.Preds {
			if p == inPreds[k] {
				ev = fr.val(phi.Edges[pi]).T
				break
			}
		}
		if first {
			t = ev
			first = false
		} else {
			t = ite(in[k].guard, ev, t)
		}
	}
	return t
}

// loopEnv builds the name environment for a loop's invariants with the given phi values.
func (fr *Frame) loopEnv(li *loopInfo, phiVal func(*ssa.Phi) Val) map[string]Val {
	vars := map[string]Val{}
	for k, v := range fr.cvars {
		vars[k] = v
	}
	// locals defined before the loop: walk the dominator chain from the entry down to the header's
	// immediate dominator; the closest definition (phi named after the variable, or DebugRef) wins
	var chain []*ssa.BasicBlock
	for b := li.header.Idom(); b != nil; b = b.Idom() {
		chain = append(chain, b)
	}
	for k := len(chain) - 1; k >= 0; k-- {
		for _, ins := range chain[k].Instrs {
			switch d := ins.(type) {
			case *ssa.Phi:
				if d.Comment != "" {
					if v, ok := fr.vals[d]; ok {
						vars[d.Comment] = v
					}
				}
			case *ssa.DebugRef:
				if d.IsAddr {
					// an address-taken local: the contract names the variable; field selections go through the pointer
					if obj := d.Object(); obj != nil {
						if al, ok := d.X.(*ssa.Alloc); ok {
							if v, ok := fr.vals[al]; ok {
								if _, isStruct := al.Type().Underlying().(*types.Pointer).Elem().Underlying().(*types.Struct); isStruct {
									vars[obj.Name()] = v
								}
							}
						}
					}
					continue
				}
				if obj := d.Object(); obj != nil {
					if v, ok := fr.vals[d.X]; ok {
						vars[obj.Name()] = v
					} else if c, ok := d.X.(*ssa.Const); ok {
						vars[obj.Name()] = fr.val(c)
					}
				}
			}
		}
	}
	var idx *ssa.Phi
	for _, ins := range li.header.Instrs {
		phi, ok := ins.(*ssa.Phi)
		if !ok {
			break
		}
		v := phiVal(phi)
		if phi.Comment != "" {
			vars[phi.Comment] = v
		}
		if idx == nil && isIntType(phi.Type()) {
			idx = phi
		}
	}
	// $i: the range index (phi named rangeindex) or the first integer phi
	for _, ins := range li.header.Instrs {
		phi, ok := ins.(*ssa.Phi)
		if !ok {
			break
		}
		if phi.Comment == "rangeindex" {
			idx = phi
		}
	}
	if idx != nil {
		// $range: the slice being ranged over - the operand indexed by the range index in the loop body; for a
		// hand-written index loop (for i := 0; i < len(s); i++ { … s[i] … }) the slice indexed by the loop variable,
		// so that a contract written for one form of the loop still binds to the other
		for b := range li.body {
			for _, ins := range b.Instrs {
				ia, ok := ins.(*ssa.IndexAddr)
				if !ok {
					continue
				}
				hit := false
				if idx.Comment == "rangeindex" {
					if bo, ok := ia.Index.(*ssa.BinOp); ok && bo.X == ssa.Value(idx) {
						hit = true
					}
				} else if ia.Index == ssa.Value(idx) {
					hit = true
				}
				if hit {
					if v, ok := fr.vals[ia.X]; ok {
						if _, dup := vars["$range"]; !dup {
							vars["$range"] = v
						}
					}
				}
			}
		}
	}
	if idx != nil {
		v := phiVal(idx)
		if idx.Comment == "rangeindex" {
			// SSA's range index starts at -1 and is incremented at the loop head; $i is the number of completed iterations
			v = Val{T: "(+ " + v.T + " 1)", Sort: SInt, Typ: v.Typ}
		}
		vars["$i"] = v
	}
	return vars
}

func isIntType(t types.Type) bool {
	b, ok := t.Underlying().(*types.Basic)
	return ok && b.Info()&types.IsInteger != 0
}

// enterLoop cuts the loop at its header: check the invariant on entry, havoc, assume it.
func (fr *Frame) enterLoop(li *loopInfo, b *ssa.BasicBlock, st *State, in []edgeState, inPreds []*ssa.BasicBlock) *State {
	u := fr.u
	name := fmt.Sprintf("loop%d", li.ord)
	if li.lc == nil {
		u.unsupported("%s: loop %d (%s) has no invariant", fr.oblFn, li.ord, fr.pos(firstPos(b)))
		li.lc = &LoopContract{N: li.ord}
	}
	li.entrySt = st.clone()
	// invariant on entry
	entryVals := map[*ssa.Phi]Val{}
	for _, ins := range b.Instrs {
		phi, ok := ins.(*ssa.Phi)
		if !ok {
			break
		}
		entryVals[phi] = u.goVal(u.def("phi_in", u.sorts.sortOf(phi.Type()), fr.phiTerm(phi, b, in, inPreds)), phi.Type())
	}
	env := &Env{u: u, vars: fr.loopEnv(li, func(p *ssa.Phi) Val { return entryVals[p] }), st: st, old: fr.root.entry, pkg: u.curPkg}
	for _, inv := range li.lc.Invariants {
		t, rec, err := env.EvalClause(inv.Expr)
		if err != nil {
			u.unsupported("%s: %s invariant: %v", fr.oblFn, name, err)
			continue
		}
		u.obligeRec(fr.oblFn, name+".init", inv.Label, fr.pos(firstPos(b)), inv.Src, st.guard, t, rec)
	}
	// havoc what the loop may write
	hs := st.clone()
	ws := fr.writeSet(li)
	lws := u.localWrites
	if ws["*"] {
		fr.havocAllKeepLocals(hs)
		// havoc-everything leaves the ghost trace alone (an unknown callback emits nothing of ours): what the body
		// itself emits, and the ghost maps it writes, change from one iteration to the next all the same
		var evs []string
		for _, c := range sortedKeys(ws) {
			if strings.HasPrefix(c, "ev:") {
				evs = append(evs, c[3:])
			} else if isGhostTrace(c) {
				u.havocComp(hs, c)
			}
		}
		u.havocEvents(hs, evs...)
	} else {
		// local variables allocated before the loop and assigned in it: only their own location is havocked
		for _, lw := range lws {
			base, ok := fr.vals[lw.alloc]
			if !ok || base.Sort != SRef {
				// not executed yet / not a plain object: fall back to the whole components
				u.sortsIn(lw.typ, "H_", ws)
				continue
			}
			addr := base
			ct := lw.alloc.Type().Underlying().(*types.Pointer).Elem()
			for _, i := range lw.path {
				si := u.sorts.structOf(ct)
				addr = Val{T: u.mkSub(addr.T, i), Sort: SRef, FBase: addr.T, FStruct: ct, FIdx: i}
				ct = si.fields[i].typ
			}
			u.havocPtr(hs, addr, lw.typ)
		}
		var evs []string
		for _, c := range sortedKeys(ws) {
			if strings.HasPrefix(c, "ev:") {
				evs = append(evs, c[3:])
			} else {
				u.havocComp(hs, c)
			}
		}
		u.havocEvents(hs, evs...)
	}
	li.phiHdr = map[*ssa.Phi]Term{}
	for _, ins := range b.Instrs {
		phi, ok := ins.(*ssa.Phi)
		if !ok {
			break
		}
		s := u.sorts.sortOf(phi.Type())
		t := u.fresh(fr.fn.Name()+"_"+phi.Name()+"_h", s)
		li.phiHdr[phi] = t
		fr.vals[phi] = Val{T: t, Typ: phi.Type(), Sort: s}
		u.typeFacts(hs, t, phi.Type())
	}
	henv := &Env{u: u, vars: fr.loopEnv(li, func(p *ssa.Phi) Val { return fr.vals[p] }), st: hs, old: fr.root.entry, pkg: u.curPkg}
	for _, inv := range li.lc.Invariants {
		t, rec, err := henv.EvalClause(inv.Expr)
		if err != nil {
			continue
		}
		lbl := inv.Label
		u.tagged(lbl, func() { u.assumeRec(implies(hs.guard, t), rec) })
	}
	li.hdrSt = hs.clone()
	u.cover(fr.oblFn, name+".head", fr.pos(firstPos(b)), hs.guard)
	return hs
}

// backEdge checks invariant preservation and the variant.
func (fr *Frame) backEdge(li *loopInfo, from *ssa.BasicBlock, guard Term, st *State) {
	u := fr.u
	name := fmt.Sprintf("loop%d", li.ord)
	b := li.header
	phiVal := func(phi *ssa.Phi) Val {
		for pi, p := range b.Preds {
			if p == from {
				return fr.val(phi.Edges[pi])
			}
		}
		return Val{}
	}
	env := &Env{u: u, vars: fr.loopEnv(li, phiVal), st: st, old: fr.root.entry, pkg: u.curPkg}
	for _, inv := range li.lc.Invariants {
		t, rec, err := env.EvalClause(inv.Expr)
		if err != nil {
			u.unsupported("%s: %s invariant: %v", fr.oblFn, name, err)
			continue
		}
		u.obligeRec(fr.oblFn, name+".preserve", inv.Label, fr.pos(firstPos(from)), inv.Src, guard, t, rec)
	}
	if d := li.lc.Decreases; d != nil {
		henv := &Env{u: u, vars: fr.loopEnv(li, func(p *ssa.Phi) Val { return Val{T: li.phiHdr[p], Typ: p.Type(), Sort: u.sorts.sortOf(p.Type())} }), st: li.hdrSt, old: fr.root.entry, pkg: u.curPkg}
		v0, err0 := henv.EvalVal(d.Expr)
		v1, err1 := env.EvalVal(d.Expr)
		if err0 != nil || err1 != nil {
			u.unsupported("%s: %s decreases: %v %v", fr.oblFn, name, err0, err1)
		} else {
			u.oblige(fr.oblFn, name+".decreases", d.Label, fr.pos(firstPos(from)), d.Src, guard, "(and (>= "+v0.T+" 0) (< "+v1.T+" "+v0.T+"))")
		}
	} else {
		u.notes = append(u.notes, fmt.Sprintf("%s: %s has no decreases clause (termination not proved)", fr.oblFn, name))
	}
}

func firstPos(b *ssa.BasicBlock) token.Pos {
	for _, i := range b.Instrs {
		if i.Pos().IsValid() {
			return i.Pos()
		}
	}
	return token.NoPos
}

func (fr *Frame) edge(from *ssa.BasicBlock, to *ssa.BasicBlock, guard Term, st *State) {
	if fr.isBackEdge(from, to) {
		if li := fr.loops[to]; li != nil {
			fr.backEdge(li, from, guard, st)
		}
		return
	}
	fr.edges[[2]int{from.Index, to.Index}] = edgeState{guard, st}
}

func (fr *Frame) execBlock(b *ssa.BasicBlock, st *State) {
	u := fr.u
	for _, ins := range b.Instrs {
		u.stats.instrs++
		switch x := ins.(type) {
		case *ssa.Phi:
			continue
		case *ssa.DebugRef:
			continue
		case *ssa.If:
			c := fr.val(x.Cond).T
			gt := u.def("g", SBool, and(st.guard, c))
			gf := u.def("g", SBool, and(st.guard, not(c)))
			fr.edge(b, b.Succs[0], gt, st)
			fr.edge(b, b.Succs[1], gf, st.clone())
			return
		case *ssa.Jump:
			fr.edge(b, b.Succs[0], st.guard, st)
			return
		case *ssa.Return:
			var vs []Val
			for _, r := range x.Results {
				vs = append(vs, fr.val(r))
			}
			fr.rets = append(fr.rets, retInfo{st.guard, vs, st})
			return
		case *ssa.Panic:
			u.oblige(fr.oblFn, "safe.panic", "", fr.pos(x.Pos()), "panic is unreachable", st.guard, "false")
			return
		default:
			fr.exec(st, ins)
		}
	}
}

func (u *Unit) havocAll(st *State) {
	a := u.get(st, "alloc")
	u.epoch++
	// the ghost event trace is not part of the heap: it survives (events of a callback are the callback's own)
	keep := map[string]Term{}
	for k := range u.compSort {
		if isGhostTrace(k) {
			keep[k] = u.get(st, k)
		}
	}
	for k, v := range st.comp {
		if isGhostTrace(k) {
			keep[k] = v
		}
	}
	st.comp = keep
	st.epoch = u.epoch
	n := u.fresh("alloc", "Int")
	u.assume("(>= " + n + " " + a + ")")
	st.comp["alloc"] = n
}

// havocObject havocs the fields of one object (all addresses with its root id) and nothing else: what a callee may
// do to a value it receives as an interface of unknown dynamic type (same shallow reading as a typed pointee()).
func (u *Unit) havocObject(st *State, root Term) {
	prev := st.clone()
	a := u.get(st, "alloc")
	u.epoch++
	if u.epochFrames == nil {
		u.epochFrames = map[int]*epochFrame{}
	}
	u.epochFrames[u.epoch] = &epochFrame{prev: prev, root: root}
	keep := map[string]Term{}
	var names []string
	for k := range u.compSort {
		if isGhostTrace(k) {
			keep[k] = u.get(st, k)
		} else if k != "alloc" {
			names = append(names, k)
		}
	}
	for k, v := range st.comp {
		if isGhostTrace(k) {
			keep[k] = v
		}
	}
	st.comp = keep
	st.epoch = u.epoch
	n := u.fresh("alloc", "Int")
	u.assume("(>= " + n + " " + a + ")")
	st.comp["alloc"] = n
	// components known so far are related to their previous versions now (a later merge starts a new epoch)
	sort.Strings(names)
	for _, k := range names {
		st.comp[k] = u.get(st, k)
	}
}

// escapes reports whether the address of a local variable leaves the function (is passed, stored, returned or
// converted); only then can a callee change it.
func allocEscapes(a *ssa.Alloc) bool {
	seen := map[ssa.Value]bool{}
	var visit func(v ssa.Value) bool
	visit = func(v ssa.Value) bool {
		if seen[v] {
			return false
		}
		seen[v] = true
		refs := v.Referrers()
		if refs == nil {
			return true
		}
		for _, r := range *refs {
			switch x := r.(type) {
			case *ssa.UnOp:
				// load
			case *ssa.Store:
				if x.Val == v {
					return true
				}
			case *ssa.FieldAddr:
				if visit(x) {
					return true
				}
			case *ssa.DebugRef:
			case *ssa.MakeClosure:
				// captured by a closure: fine as long as the closure only ever loads the variable (the closure
				// itself may go anywhere - nobody can write the cell through it)
				fn, _ := x.Fn.(*ssa.Function)
				for i, b := range x.Bindings {
					if b == v && (fn == nil || i >= len(fn.FreeVars) || !onlyLoaded(fn.FreeVars[i], map[ssa.Value]bool{})) {
						return true
					}
				}
			default:
				return true
			}
		}
		return false
	}
	return visit(a)
}

// onlyLoaded reports whether a captured variable's cell is only read inside the closure (and the closures it is
// handed on to).
func onlyLoaded(v ssa.Value, seen map[ssa.Value]bool) bool {
	if seen[v] {
		return true
	}
	seen[v] = true
	refs := v.Referrers()
	if refs == nil {
		return false
	}
	for _, r := range *refs {
		switch x := r.(type) {
		case *ssa.UnOp:
			// load
		case *ssa.DebugRef:
		case *ssa.MakeClosure:
			fn, _ := x.Fn.(*ssa.Function)
			for i, b := range x.Bindings {
				if b == v && (fn == nil || i >= len(fn.FreeVars) || !onlyLoaded(fn.FreeVars[i], seen)) {
					return false
				}
			}
		default:
			return false
		}
	}
	return true
}

// havocAllKeepLocals havocs the whole heap (an unspecified callee) but keeps the contents of the local variables
// of the current activations whose address never escapes: no callee can reach them.
func (fr *Frame) havocAllKeepLocals(st *State) {
	u := fr.u
	type saved struct {
		addr Term
		typ  types.Type
		val  Term
	}
	var keep []saved
	for f := fr; f != nil; f = f.parent {
		for _, b := range f.fn.Blocks {
			for _, ins := range b.Instrs {
				a, ok := ins.(*ssa.Alloc)
				if !ok {
					continue
				}
				v, done := f.vals[a]
				if !done || v.Sort != SRef || allocEscapes(a) {
					continue
				}
				et := a.Type().Underlying().(*types.Pointer).Elem()
				keep = append(keep, saved{v.T, et, u.def("keep", u.sorts.sortOf(et), u.load(st, v.T, et))})
			}
		}
	}
	u.havocAll(st)
	for _, k := range keep {
		u.storeTo(st, k.addr, k.typ, k.val)
	}
}
