package vc

import (
	"fmt"
	"go/token"
	"go/types"
	"sort"
	"sync"
	"strings"

	"golang.org/x/tools/go/packages"
	"golang.org/x/tools/go/ssa"
	"golang.org/x/tools/go/ssa/ssautil"
)

// Program is the loaded repository: SSA for the packages under verification plus contracts.
type Program struct {
	Repo   string
	Fset   *token.FileSet
	Prog   *ssa.Program
	Pkgs   []*ssa.Package
	TPkgs  map[string]*types.Package // by short name (xmpp, stanza) and by path
	Funcs  map[string]*ssa.Function  // by key
	CS     *Contracts
	tags   map[string]int
	tagTyp []types.Type
	LoadErrors []string
}

var pathShort = strings.NewReplacer("gosrc.io/xmpp/stanza.", "stanza.", "gosrc.io/xmpp.", "xmpp.")

// FuncKey is the canonical name of a function used in contract headers.
func FuncKey(f *ssa.Function) string {
	return pathShort.Replace(f.String())
}

func TypeKey(t types.Type) string {
	return pathShort.Replace(types.TypeString(t, nil))
}

func methodKey(m *types.Func) string {
	return pathShort.Replace(m.FullName())
}

func Load(repo string) (*Program, error) {
	cfg := &packages.Config{Mode: packages.LoadAllSyntax, Dir: repo, BuildFlags: []string{"-tags=verif"}}
	pkgs, err := packages.Load(cfg, ".", "./stanza")
	if err != nil {
		return nil, err
	}
	p := &Program{Repo: repo, TPkgs: map[string]*types.Package{}, Funcs: map[string]*ssa.Function{}, tags: map[string]int{}}
	for _, pk := range pkgs {
		for _, e := range pk.Errors {
			p.LoadErrors = append(p.LoadErrors, e.Error())
		}
	}
	if len(p.LoadErrors) > 0 {
		return nil, fmt.Errorf("load errors: %s", strings.Join(p.LoadErrors, "; "))
	}
	prog, spkgs := ssautil.AllPackages(pkgs, ssa.GlobalDebug)
	prog.Build()
	p.Prog = prog
	p.Fset = prog.Fset
	for _, sp := range spkgs {
		if sp != nil {
			p.Pkgs = append(p.Pkgs, sp)
		}
	}
	for _, sp := range prog.AllPackages() {
		p.TPkgs[sp.Pkg.Path()] = sp.Pkg
		if _, dup := p.TPkgs[sp.Pkg.Name()]; !dup || sp.Pkg.Path() == "gosrc.io/xmpp" || sp.Pkg.Path() == "gosrc.io/xmpp/stanza" {
			p.TPkgs[sp.Pkg.Name()] = sp.Pkg
		}
	}
	for f := range ssautil.AllFunctions(prog) {
		if f.Synthetic != "" && !strings.HasPrefix(f.Synthetic, "package init") {
			// wrappers, bound methods, thunks: not indexed
			if f.Pkg == nil {
				continue
			}
		}
		k := FuncKey(f)
		if old, dup := p.Funcs[k]; dup && old.Synthetic == "" {
			continue
		}
		p.Funcs[k] = f
	}
	// methods that nothing references are not "reachable" for AllFunctions: index them explicitly
	for _, sp := range p.Pkgs {
		for _, m := range sp.Members {
			t, ok := m.(*ssa.Type)
			if !ok {
				continue
			}
			n, ok := t.Type().(*types.Named)
			if !ok {
				continue
			}
			for i := 0; i < n.NumMethods(); i++ {
				if f := prog.FuncValue(n.Method(i)); f != nil {
					if _, dup := p.Funcs[FuncKey(f)]; !dup {
						p.Funcs[FuncKey(f)] = f
					}
				}
			}
		}
	}
	p.buildTagTable()
	return p, nil
}

func (p *Program) InRepo(f *ssa.Function) bool {
	if f == nil {
		return false
	}
	pk := f.Pkg
	if pk == nil && f.Parent() != nil {
		pk = f.Parent().Pkg
	}
	if pk == nil {
		if f.Object() != nil && f.Object().Pkg() != nil {
			pp := f.Object().Pkg().Path()
			return pp == "gosrc.io/xmpp" || pp == "gosrc.io/xmpp/stanza"
		}
		return false
	}
	pp := pk.Pkg.Path()
	return pp == "gosrc.io/xmpp" || pp == "gosrc.io/xmpp/stanza"
}

// buildTagTable numbers the concrete types that can be the dynamic type of an interface value.
func (p *Program) buildTagTable() {
	var keys []string
	seen := map[string]types.Type{}
	add := func(t types.Type) {
		if _, ok := t.Underlying().(*types.Interface); ok {
			return
		}
		k := types.TypeString(t, nil)
		if _, ok := seen[k]; !ok {
			seen[k] = t
			keys = append(keys, k)
		}
	}
	for _, sp := range p.Pkgs {
		for _, m := range sp.Members {
			if t, ok := m.(*ssa.Type); ok {
				add(t.Type())
				add(types.NewPointer(t.Type()))
			}
		}
	}
	for f := range ssautil.AllFunctions(p.Prog) {
		if !p.InRepo(f) {
			continue
		}
		for _, b := range f.Blocks {
			for _, in := range b.Instrs {
				switch x := in.(type) {
				case *ssa.MakeInterface:
					add(x.X.Type())
				case *ssa.TypeAssert:
					add(x.AssertedType)
				}
			}
		}
	}
	sort.Strings(keys)
	p.tagTyp = append(p.tagTyp, nil)
	for i, k := range keys {
		p.tags[k] = i + 1
		p.tagTyp = append(p.tagTyp, seen[k])
	}
}

var tagMu sync.Mutex

func (p *Program) tagOf(t types.Type) int {
	tagMu.Lock()
	defer tagMu.Unlock()
	k := types.TypeString(t, nil)
	if n, ok := p.tags[k]; ok {
		return n
	}
	n := len(p.tagTyp)
	p.tags[k] = n
	p.tagTyp = append(p.tagTyp, t)
	return n
}

// lookupType resolves "stanza.Message" / "Message" (relative to pkg) to a types.Type.
func (p *Program) lookupType(pkg *types.Package, qual, name string) types.Type {
	var scope *types.Scope
	if qual == "" {
		if pkg != nil {
			scope = pkg.Scope()
		}
	} else if tp, ok := p.TPkgs[qual]; ok {
		scope = tp.Scope()
	}
	if scope == nil {
		return nil
	}
	if o, ok := scope.Lookup(name).(*types.TypeName); ok {
		return o.Type()
	}
	if qual == "" {
		if o, ok := types.Universe.Lookup(name).(*types.TypeName); ok {
			return o.Type()
		}
	}
	return nil
}

func (p *Program) pos(pos token.Pos) string {
	if !pos.IsValid() {
		return ""
	}
	ps := p.Fset.Position(pos)
	return fmt.Sprintf("%s:%d", strings.TrimPrefix(ps.Filename, p.Repo+"/"), ps.Line)
}

// RepoFuncKeys lists the keys of all /repo functions with a body (closures included, test files and synthetic
// wrappers excluded).
func (p *Program) RepoFuncKeys() []string {
	var out []string
	for f := range ssautil.AllFunctions(p.Prog) {
		if !p.InRepo(f) || f.Blocks == nil || f.Synthetic != "" {
			continue
		}
		out = append(out, FuncKey(f))
	}
	sort.Strings(out)
	return out
}
