package vc

import (
	"bytes"
	"context"
	"fmt"
	"os"
	"os/exec"
	"path/filepath"
	"regexp"
	"strings"
	"sync"
	"time"
)

type Result struct {
	Obl     *Obligation
	Status  string // unsat (discharged), sat (refuted), unknown, timeout, error
	Solver  string
	Seconds float64
	Model   string
	Output  string
	Answers map[string]string
	MaxCase float64 // slowest single case (Aggregate)
}

type SolverCfg struct {
	Timeout  time.Duration
	Scratch  string
	AllAgree bool // thorough: wait for every solver and require agreement
	Models   bool
	Stagger  time.Duration // delay before the second and third solver join the race (default 1.5 s)
}

func (c SolverCfg) stagger() time.Duration {
	if c.Stagger > 0 {
		return c.Stagger
	}
	return 1500 * time.Millisecond
}

type solverDef struct {
	name string
	args func(file string, to time.Duration, models bool) []string
}

var solvers = []solverDef{
	{"z3-new", func(f string, to time.Duration, m bool) []string {
		return []string{"z3-new", fmt.Sprintf("-T:%d", int(to.Seconds())+1), "-smt2", f}
	}},
	{"z3", func(f string, to time.Duration, m bool) []string {
		return []string{"z3", fmt.Sprintf("-T:%d", int(to.Seconds())+1), "-smt2", f}
	}},
	{"cvc5", func(f string, to time.Duration, m bool) []string {
		a := []string{"cvc5", fmt.Sprintf("--tlimit=%d", to.Milliseconds()), "--strings-exp"}
		if m {
			a = append(a, "--produce-models")
		}
		return append(a, f)
	}},
}

func firstWord(out string) string {
	for _, l := range strings.Split(out, "\n") {
		l = strings.TrimSpace(l)
		if l == "" {
			continue
		}
		switch {
		case l == "sat", l == "unsat", l == "unknown":
			return l
		case strings.HasPrefix(l, "timeout"), strings.Contains(l, "interrupted by timeout"), strings.Contains(l, "time limit"):
			return "timeout"
		case strings.HasPrefix(l, "(error"):
			return "error"
		}
		return "error"
	}
	return "timeout"
}

// Solve races the solvers on one obligation.
func Solve(o *Obligation, cfg SolverCfg, id int) Result {
	res := Result{Obl: o, Answers: map[string]string{}}
	if o.Goal == "true" && !o.Cover {
		res.Status, res.Solver = "unsat", "trivial"
		return res
	}
	if o.Kind == "bind" {
		res.Status, res.Solver = "sat", "binder"
		res.Output = o.Src
		return res
	}
	if o.Cover && cfg.Timeout > 3*time.Second {
		cfg.Timeout = 3 * time.Second // reachability covers only need to avoid 'unsat'
	}
	q := o.Query(cfg.Models)
	file := filepath.Join(cfg.Scratch, fmt.Sprintf("q%d.smt2", id))
	if err := os.WriteFile(file, []byte(q), 0o644); err != nil {
		res.Status = "error"
		res.Output = err.Error()
		return res
	}
	defer os.Remove(file)
	ctx, cancel := context.WithCancel(context.Background())
	defer cancel()
	type ans struct {
		solver, status, out string
		secs                float64
	}
	ch := make(chan ans, len(solvers))
	var wg sync.WaitGroup
	start := time.Now()
	order := solvers
	if o.unit.strSMT {
		order = []solverDef{solvers[2], solvers[0], solvers[1]}
	}
	if o.Cover {
		// a reachability cover only has to be "not refuted": one solver is asked
		order = order[:1]
	}
	firstDone := make(chan struct{})
	for k, s := range order {
		wg.Add(1)
		go func(k int, s solverDef) {
			defer wg.Done()
			if k > 0 && !cfg.AllAgree {
				// the first solver answers most queries within a second: the others join the race only after that
				select {
				case <-ctx.Done():
					ch <- ans{s.name, "cancelled", "", 0}
					return
				case <-firstDone:
				case <-time.After(cfg.stagger()):
				}
			}
			t0 := time.Now()
			c, cn := context.WithTimeout(ctx, cfg.Timeout+2*time.Second)
			defer cn()
			a := s.args(file, cfg.Timeout, cfg.Models)
			cmd := exec.CommandContext(c, a[0], a[1:]...)
			var out bytes.Buffer
			cmd.Stdout = &out
			cmd.Stderr = &out
			cmd.Run()
			ch <- ans{s.name, firstWord(out.String()), out.String(), time.Since(t0).Seconds()}
			if k == 0 {
				close(firstDone)
			}
		}(k, s)
	}
	go func() { wg.Wait(); close(ch) }()
	for a := range ch {
		if a.status == "cancelled" {
			continue
		}
		res.Answers[a.solver] = a.status
		if a.status == "sat" || a.status == "unsat" {
			if res.Status == "sat" || res.Status == "unsat" {
				if res.Status != a.status {
					res.Status = "error"
					res.Output = fmt.Sprintf("solvers disagree: %v", res.Answers)
					return res
				}
				continue
			}
			res.Status, res.Solver, res.Seconds, res.Output = a.status, a.solver, a.secs, a.out
			if a.status == "sat" {
				res.Model = a.out
			}
			if !cfg.AllAgree {
				cancel()
				break
			}
		} else if res.Status == "" || res.Status == "error" {
			if res.Status == "" || a.status != "error" {
				res.Status, res.Solver, res.Output = a.status, a.solver, a.out
			}
		}
	}
	if res.Status != "sat" && res.Status != "unsat" {
		// no definite answer: unknown/timeout/error
		st := "unknown"
		allErr := true
		for _, s := range res.Answers {
			if s != "error" {
				allErr = false
			}
			if s == "timeout" && st != "unknown" {
				st = "timeout"
			}
		}
		if allErr && len(res.Answers) > 0 {
			st = "error"
		}
		res.Status = st
		res.Seconds = time.Since(start).Seconds()
	}
	return res
}

// SolveAll discharges obligations in parallel.
func SolveAll(obls []*Obligation, cfg SolverCfg, par int) []Result {
	out := make([]Result, len(obls))
	sem := make(chan struct{}, par)
	var wg sync.WaitGroup
	for i, o := range obls {
		wg.Add(1)
		sem <- struct{}{}
		go func(i int, o *Obligation) {
			defer wg.Done()
			defer func() { <-sem }()
			out[i] = Solve(o, cfg, i)
		}(i, o)
	}
	wg.Wait()
	return out
}

var modelDef = regexp.MustCompile(`\(define-fun ([^\s()]+) \(\) (\S+)\s+("(?:[^"]|"")*"|\(- \d+\)|[^\s()]+)\)`)

// ModelScalars extracts the scalar constants of a model.
func ModelScalars(model string) map[string]string {
	m := map[string]string{}
	for _, g := range modelDef.FindAllStringSubmatch(model, -1) {
		m[g[1]] = g[3]
	}
	return m
}

// Aggregate merges the cases of split obligations: one Result per obligation name, discharged iff every case is.
func Aggregate(rs []Result) []Result {
	var out []Result
	idx := map[string]int{}
	for _, r := range rs {
		i, ok := idx[r.Obl.Name]
		if !ok {
			idx[r.Obl.Name] = len(out)
			r.MaxCase = r.Seconds
			out = append(out, r)
			continue
		}
		a := &out[i]
		a.Seconds += r.Seconds
		if r.Seconds > a.MaxCase {
			a.MaxCase = r.Seconds
		}
		switch {
		case a.Status == "unsat":
			if r.Status != "unsat" {
				a.Status, a.Solver, a.Model, a.Output, a.Obl = r.Status, r.Solver, r.Model, r.Output, r.Obl
			}
		case a.Status != "sat" && r.Status == "sat":
			a.Status, a.Solver, a.Model, a.Output, a.Obl = r.Status, r.Solver, r.Model, r.Output, r.Obl
		}
	}
	return out
}
