package vc

import (
	"fmt"
	"regexp"

	"golang.org/x/tools/go/ssa"
	"go/types"
	"sort"
	"strings"
)

// Val is a symbolic value.
type Val struct {
	T     Term
	Typ   types.Type // Go type, nil for spec-level values
	Sort  string
	Addr  *Addr // set for pointers to slice elements (never materialised as Ref terms)
	Tuple []Val
	FBase Term       // when the pointer is the address of a struct field: address of the struct,
	FStruct types.Type //   the struct type
	FIdx  int        //   and the field index
	Dyn   *Val       // for interface values built by MakeInterface from a pointer: that pointer
	DynTyp types.Type // for interface values built by MakeInterface: the static type of the operand
	Lazy  types.Type // contract name of a captured variable: the value is loaded from T when used
	ConstLen int // for slices of a fresh fixed-size array: length+1
	IsType bool // type expression in a contract (Typ holds it)
	Zero  bool // the value is syntactically the zero value of its type (an ssa.Const without value), e.g. time.Time{}
	Pkg   *types.Package
}

// Addr is a symbolic address of a slice element (possibly a field path inside it).
type Addr struct {
	Base, Idx Term
	ElemSort  string
	ElemTyp   types.Type
	Path      []int
	Typ       types.Type // type at the end of the path
}

// State is the symbolic store: reach guard plus the current version of every component.
type State struct {
	guard Term
	comp  map[string]Term
	epoch int // >0 after a havoc-everything: untouched components are no longer the entry versions
}

func (s *State) clone() *State {
	n := &State{guard: s.guard, comp: make(map[string]Term, len(s.comp)), epoch: s.epoch}
	for k, v := range s.comp {
		n.comp[k] = v
	}
	return n
}

type Obligation struct {
	Name   string
	Func   string
	Kind   string
	Label  string
	Pos    string
	Src    string
	Prefix int // number of unit commands that precede it
	Guard  Term
	Goal   Term
	Cover  bool // expected sat (vacuity / reachability check)
	Case   int  // case number when an obligation is split (per return path)
	unit   *Unit
	Quantified bool
	rec    *Rec
}

// hyp is a hypothesis containing an instantiable universal quantifier.
type hyp struct {
	pos int
	F   Term
	q   *Quant
	tag string
}

type idxAt struct {
	pos int
	t   Term
}

// Unit is one verification unit: a function body checked against its contract, or a lemma.
type Unit struct {
	P        *Program
	Name     string
	sorts    *Sorts
	cmds     []string
	nfresh   int
	Obls     []*Obligation
	compSort map[string]string
	entry    map[string]Term
	strSMT   bool
	usesStrOps bool
	trusted  map[string]bool
	unspec   map[string]bool
	notes    []string
	declared map[string]bool
	subFacts map[string]bool
	implDone map[string]bool
	ordinals map[string]int
	Unsupported []string
	curPkg   *types.Package
	stats    struct{ instrs, inlined int }
	eventArgSorts map[string][]string
	region   Term // extra hypothesis (known-finding exclusion), "" if none
	lits     map[string]bool
	litOrder []string
	litName  map[string]string
	usesLen  bool
	lenFacts []int
	specsUsed []string
	globals  map[string]int
	eventArgTyp map[string]types.Type
	epoch    int
	cmdTag   []string
	curTag   string
	hyps     []hyp
	witnesses []idxAt // skolem constants of assumed existentials
	idxTerms []idxAt
	elemComps map[string]bool
	curLoopBody map[*ssa.BasicBlock]bool
	localWrites []localWrite
	repoCallees map[string]bool // contracts of /repo functions and interfaces assumed at call sites
	epochFrames map[int]*epochFrame
	Inlined  map[string]bool // /repo functions verified inside this unit by inlining
}

// epochFrame records a havoc of one object only (havocObject): in that epoch every component agrees with its
// pre-havoc version outside the object.
type epochFrame struct {
	prev *State
	root Term
}

func newUnit(p *Program, name string) *Unit {
	return &Unit{P: p, Name: name, sorts: newSorts(), compSort: map[string]string{}, entry: map[string]Term{},
		trusted: map[string]bool{}, unspec: map[string]bool{}, declared: map[string]bool{}, subFacts: map[string]bool{},
		implDone: map[string]bool{}, ordinals: map[string]int{}, eventArgSorts: map[string][]string{}, repoCallees: map[string]bool{}}
}

func (u *Unit) emit(cmd string) {
	u.cmds = append(u.cmds, cmd)
	u.cmdTag = append(u.cmdTag, u.curTag)
}

// propTags returns the property ids (Cxx) a clause label names; labels may list several, separated by commas.
func propTags(label string) []string {
	var out []string
	for _, part := range strings.Split(label, ",") {
		part = strings.TrimSpace(part)
		if len(part) >= 3 && part[0] == 'C' && part[1] >= '0' && part[1] <= '9' && part[2] >= '0' && part[2] <= '9' {
			out = append(out, part[:3])
		}
	}
	return out
}

// tagged runs f with assertions tagged by the clause label: a hypothesis that belongs to other properties only
// is left out of the queries of an obligation labelled with a property (fewer, smaller queries; dropping
// hypotheses cannot make an invalid obligation provable).
func (u *Unit) tagged(label string, f func()) {
	old := u.curTag
	u.curTag = strings.Join(propTags(label), ",")
	f()
	u.curTag = old
}

func (u *Unit) assume(t Term) {
	if t != "true" {
		u.emit("(assert " + t + ")")
	}
}

// assumeRec asserts a hypothesis and registers its instantiable quantifiers.
func (u *Unit) assumeRec(t Term, rec *Rec) {
	if t == "true" {
		return
	}
	if rec != nil {
		// an assumed existential is skolemised here, so that its witness has a name that can be offered to later
		// existential goals (the solver's own skolem constants are not visible to the instantiation engine)
		for _, q := range rec.Quants {
			if q.Ex && !q.Neg && len(q.TVars) == 0 && strings.Contains(t, q.Text) {
				u.nfresh++
				sk := fmt.Sprintf("hsk!%d", u.nfresh)
				u.emit("(declare-fun " + sk + " () Int)")
				t = strings.ReplaceAll(t, q.Text, "(and "+strings.ReplaceAll(q.Rng, q.Var, sk)+" "+strings.ReplaceAll(q.Body, q.Var, sk)+")")
				u.witnesses = append(u.witnesses, idxAt{len(u.cmds), sk})
			}
		}
	}
	u.emit("(assert " + t + ")")
	if rec == nil {
		return
	}
	for _, q := range rec.Quants {
		if q.Ex || q.Neg {
			continue
		}
		if (len(q.Offs) > 0 || len(q.TVars) > 0) && strings.Contains(t, q.Text) {
			u.hyps = append(u.hyps, hyp{len(u.cmds), t, q, u.curTag})
		}
	}
	for _, ix := range rec.Idx {
		u.idxTerms = append(u.idxTerms, idxAt{len(u.cmds), ix})
	}
}

func (u *Unit) freshName(hint string) string {
	u.nfresh++
	return fmt.Sprintf("%s!%d", smtIdent(hint), u.nfresh)
}

// fresh declares an unconstrained constant.
func (u *Unit) fresh(hint, sort string) Term {
	n := u.freshName(hint)
	u.emit(fmt.Sprintf("(declare-fun %s () %s)", n, sort))
	return n
}

// def names a term (keeps the formula a DAG).
func (u *Unit) def(hint, sort string, t Term) Term {
	if !strings.ContainsAny(t, " (") {
		return t
	}
	n := u.freshName(hint)
	u.emit(fmt.Sprintf("(define-fun %s () %s %s)", n, sort, t))
	return n
}

func (u *Unit) unsupported(f string, a ...interface{}) {
	u.Unsupported = append(u.Unsupported, fmt.Sprintf(f, a...))
}

// ---------------------------------------------------------------------------
// components

func (u *Unit) compSortOf(name string) string {
	if s, ok := u.compSort[name]; ok {
		return s
	}
	var s string
	switch {
	case strings.HasPrefix(name, "H_"):
		s = "(Array Ref " + name[2:] + ")"
	case name == "BS":
		s = "(Array Int Str)"
	case name == "alloc" || name == "clock" || strings.HasPrefix(name, "cnt_"):
		s = "Int"
	case strings.HasPrefix(name, "at_"):
		s = "(Array Int Int)"
	case strings.HasPrefix(name, "MD_"):
		s = "(Array Ref (Array Str Bool))"
	case strings.HasPrefix(name, "MV_"):
		s = "(Array Ref (Array Str " + name[3:] + "))"
	case strings.HasPrefix(name, "GM_"):
		g := u.P.CS.GhostMaps[name[3:]]
		s = "(Array " + g.Struct + " " + u.ghostSort(g.Sort) + ")"
	case strings.HasPrefix(name, "held"):
		s = "(Array Ref Int)"
	default:
		panic("unknown component " + name)
	}
	u.compSort[name] = s
	return s
}

func (u *Unit) setCompSort(name, sort string) { u.compSort[name] = sort }

func (u *Unit) get(st *State, name string) Term {
	if t, ok := st.comp[name]; ok {
		return t
	}
	if st.epoch > 0 && !isGhostTrace(name) {
		key := fmt.Sprintf("%s@%d", name, st.epoch)
		if t, ok := u.entry[key]; ok {
			return t
		}
		if ef := u.epochFrames[st.epoch]; ef != nil && name != "alloc" {
			pv := u.get(ef.prev, name)
			if !strings.HasPrefix(name, "F_") && !strings.HasPrefix(name, "H_") {
				u.entry[key] = pv
				return pv
			}
			n := fmt.Sprintf("%s!e%d", smtIdent(name), st.epoch)
			u.emit(fmt.Sprintf("(declare-fun %s () %s)", n, u.compSortOf(name)))
			u.entry[key] = n
			u.assume(fmt.Sprintf("(forall ((r Ref)) (! (or (= (rootid r) %s) (= (select %s r) (select %s r))) :pattern ((select %s r))))", ef.root, n, pv, n))
			u.closedFacts(name, n, u.get(st, "alloc"))
			return n
		}
		n := fmt.Sprintf("%s!e%d", smtIdent(name), st.epoch)
		u.emit(fmt.Sprintf("(declare-fun %s () %s)", n, u.compSortOf(name)))
		u.entry[key] = n
		if name != "alloc" {
			u.closedFacts(name, n, u.get(st, "alloc"))
		}
		return n
	}
	return u.entryComp(name)
}

func (u *Unit) entryComp(name string) Term {
	if t, ok := u.entry[name]; ok {
		return t
	}
	n := smtIdent(name) + "!0"
	u.emit(fmt.Sprintf("(declare-fun %s () %s)", n, u.compSortOf(name)))
	u.entry[name] = n
	switch {
	case name == "alloc":
		u.assume("(>= " + n + " 1)")
	case strings.HasPrefix(name, "cnt_") || name == "clock":
		u.assume("(>= " + n + " 0)")
	default:
		u.closedFacts(name, n, u.entryComp("alloc"))
	}
	return n
}

// closedFacts states that a heap component holds no reference to an object that is not yet allocated.
func (u *Unit) closedFacts(name string, t Term, alloc Term) {
	// only for addresses that are allocated at that point: what a component holds at a not-yet-allocated address is
	// unconstrained (a callee may allocate an object there and initialise it with references to other fresh objects)
	cs := u.compSortOf(name)
	switch {
	case cs == "(Array Ref Ref)":
		u.assume("(forall ((r Ref)) (! (=> (< (rootid r) " + alloc + ") (< (rootid (select " + t + " r)) " + alloc + ")) :pattern ((select " + t + " r))))")
	case cs == "(Array Ref Iface)":
		u.assume("(forall ((r Ref)) (! (=> (< (rootid r) " + alloc + ") (< (rootid (val (select " + t + " r))) " + alloc + ")) :pattern ((select " + t + " r))))")
	case cs == "(Array Ref Slice)":
		u.assume("(forall ((r Ref)) (! (=> (< (rootid r) " + alloc + ") (< (sbase (select " + t + " r)) " + alloc + ")) :pattern ((select " + t + " r))))")
	case cs == "(Array Int (Array Int Ref))":
		u.assume("(forall ((b Int) (i Int)) (! (=> (< b " + alloc + ") (< (rootid (select (select " + t + " b) i)) " + alloc + ")) :pattern ((select (select " + t + " b) i))))")
	case cs == "(Array Int (Array Int Iface))":
		u.assume("(forall ((b Int) (i Int)) (! (=> (< b " + alloc + ") (< (rootid (val (select (select " + t + " b) i))) " + alloc + ")) :pattern ((select (select " + t + " b) i))))")
	case cs == "(Array Int (Array Int Slice))":
		u.assume("(forall ((b Int) (i Int)) (! (=> (< b " + alloc + ") (< (sbase (select (select " + t + " b) i)) " + alloc + ")) :pattern ((select (select " + t + " b) i))))")
	}
}

func (u *Unit) set(st *State, name string, t Term) {
	st.comp[name] = u.def(name, u.compSortOf(name), t)
}

// havocComp replaces a component by a fresh value.
func (u *Unit) havocComp(st *State, name string) Term {
	old := u.get(st, name)
	n := u.fresh(name, u.compSortOf(name))
	st.comp[name] = n
	switch {
	case name == "alloc" || name == "clock" || strings.HasPrefix(name, "cnt_"):
		u.assume("(>= " + n + " " + old + ")")
	default:
		u.closedFacts(name, n, u.get(st, "alloc"))
	}
	return n
}

type edgeState struct {
	guard Term
	st    *State
}

// merge joins states arriving over several edges.
func (u *Unit) merge(es []edgeState, hint string) *State {
	if len(es) == 1 {
		s := es[0].st.clone()
		s.guard = es[0].guard
		return s
	}
	var gs []Term
	keys := map[string]bool{}
	for _, e := range es {
		gs = append(gs, e.guard)
		for k := range e.st.comp {
			keys[k] = true
		}
	}
	out := &State{comp: map[string]Term{}, epoch: es[0].st.epoch}
	for _, e := range es {
		if e.st.epoch != out.epoch {
			u.epoch++
			out.epoch = u.epoch
			break
		}
	}
	out.guard = u.def("g_"+hint, SBool, or(gs...))
	var ks []string
	for k := range keys {
		ks = append(ks, k)
	}
	sort.Strings(ks)
	for _, k := range ks {
		t := u.get(es[len(es)-1].st, k)
		same := true
		for _, e := range es {
			if u.get(e.st, k) != t {
				same = false
			}
		}
		if same {
			out.comp[k] = t
			continue
		}
		for i := len(es) - 2; i >= 0; i-- {
			t = ite(es[i].guard, u.get(es[i].st, k), t)
		}
		out.comp[k] = u.def(k+"_"+hint, u.compSortOf(k), t)
	}
	return out
}

// ---------------------------------------------------------------------------
// obligations

func (u *Unit) ordinal(key string) int {
	u.ordinals[key]++
	return u.ordinals[key]
}

// oblige records a proof obligation at the current point; afterwards it is assumed.
func (u *Unit) oblige(fn, kind, label, pos, src string, guard, goal Term) *Obligation {
	return u.obligeRec(fn, kind, label, pos, src, guard, goal, nil)
}

// obligeCase adds one case (e.g. one return path) of an obligation with a fixed name; the obligation is
// discharged when all its cases are. Nothing is assumed afterwards.
func (u *Unit) obligeCase(name, fn, kind, label, pos, src string, guard, goal Term, rec *Rec, k int) {
	o := &Obligation{Name: name, Func: fn, Kind: kind, Label: label, Pos: pos, Src: src, Prefix: len(u.cmds), Guard: guard, Goal: goal, unit: u,
		Quantified: strings.Contains(goal, "(forall") || strings.Contains(goal, "(exists"), rec: rec, Case: k}
	if guard == "false" {
		o.Goal = "true"
	}
	u.Obls = append(u.Obls, o)
}

func (u *Unit) obligeRec(fn, kind, label, pos, src string, guard, goal Term, rec *Rec) *Obligation {
	name := fn + "#" + kind
	if label != "" {
		name += "[" + label + "]"
	}
	// make names unique and stable: ordinal per (name)
	if n := u.ordinal(name); n > 1 || label == "" {
		name = fmt.Sprintf("%s@%d", name, n)
	}
	if goal == "true" || guard == "false" {
		// trivially discharged; still counted so that names are stable
		o := &Obligation{Name: name, Func: fn, Kind: kind, Label: label, Pos: pos, Src: src, Prefix: len(u.cmds), Guard: guard, Goal: "true", unit: u}
		u.Obls = append(u.Obls, o)
		return o
	}
	o := &Obligation{Name: name, Func: fn, Kind: kind, Label: label, Pos: pos, Src: src, Prefix: len(u.cmds), Guard: guard, Goal: goal, unit: u,
		Quantified: strings.Contains(goal, "(forall") || strings.Contains(goal, "(exists"), rec: rec}
	u.Obls = append(u.Obls, o)
	u.tagged(label, func() { u.assumeRec(implies(guard, goal), rec) })
	return o
}

// cover records a reachability check (expected sat).
func (u *Unit) cover(fn, what, pos string, guard Term) {
	name := fmt.Sprintf("%s#cover.%s", fn, what)
	if n := u.ordinal(name); n > 1 {
		name = fmt.Sprintf("%s@%d", name, n)
	}
	u.Obls = append(u.Obls, &Obligation{Name: name, Func: fn, Kind: "cover", Pos: pos, Prefix: len(u.cmds), Guard: guard, Goal: "false", Cover: true, unit: u})
}

// Query renders the SMT-LIB text of an obligation.
func (o *Obligation) Query(models bool) string {
	u := o.unit
	var b strings.Builder
	if models {
		b.WriteString("(set-option :produce-models true)\n")
	}
	if u.strSMT {
		b.WriteString("(set-logic ALL)\n")
	} else {
		b.WriteString("(set-logic ALL)\n")
	}
	b.WriteString(u.sorts.header(u.strSMT, nil))
	b.WriteString(u.litHeader())
	mine := propTags(o.Label)
	for i, c := range u.cmds[:o.Prefix] {
		if tag := u.cmdTag[i]; tag != "" && len(mine) > 0 && strings.HasPrefix(c, "(assert") {
			keep := false
			for _, m := range mine {
				if strings.Contains(tag, m) {
					keep = true
				}
			}
			if !keep {
				continue
			}
		}
		b.WriteString(c)
		b.WriteByte('\n')
	}
	if u.region != "" {
		b.WriteString("(assert " + u.region + ")\n")
	}
	b.WriteString("(assert " + o.Guard + ")\n")
	if !o.Cover {
		goal, extra := o.instantiate()
		for _, x := range extra {
			b.WriteString(x)
			b.WriteByte('\n')
		}
		b.WriteString("(assert (not " + goal + "))\n")
	}
	b.WriteString("(check-sat)\n")
	if models {
		b.WriteString("(get-model)\n")
	}
	return b.String()
}

func (u *Unit) TrustedUsed() []string { return sortedKeys(u.trusted) }
func (u *Unit) Unspecified() []string { return sortedKeys(u.unspec) }

// litHeader declares the string literals and the length function for the unit's string mode.
func (u *Unit) litHeader() string {
	var b strings.Builder
	if u.strSMT {
		b.WriteString("(define-fun STRLEN ((s Str)) Int (str.len s))\n(define-fun STRCAT ((a Str) (b Str)) Str (str.++ a b))\n")
		for _, l := range u.litOrder {
			fmt.Fprintf(&b, "(define-fun %s () Str %s)\n", u.litName[l], strLit(l))
		}
	} else {
		b.WriteString("(declare-fun STRLEN (Str) Int)\n(assert (= (STRLEN EMPTYSTR) 0))\n(declare-fun STRCAT (Str Str) Str)\n")
		names := []string{"EMPTYSTR"}
		for _, l := range u.litOrder {
			fmt.Fprintf(&b, "(declare-fun %s () Str)\n(assert (= (STRLEN %s) %d))\n", u.litName[l], u.litName[l], len(l))
			names = append(names, u.litName[l])
		}
		if len(names) > 1 {
			b.WriteString("(assert (distinct " + strings.Join(names, " ") + "))\n")
		}
	}
	b.WriteString("(define-fun nilslice () Slice (mkSlice 0 0 0 0))\n")
	return b.String()
}

// instantiate skolemises the positive quantifiers of the goal and instantiates the hypotheses'
// quantifiers at the index terms of the goal and of the code executed so far (the instantiation
// scheme of the array property fragment). Every added assertion is an instance of a hypothesis
// that is already asserted, so soundness does not depend on it.
func (o *Obligation) instantiate() (Term, []string) {
	u := o.unit
	goal := o.Goal
	var extra []string
	var cands []Term
	seen := map[Term]bool{}
	addc := func(t Term) {
		if !seen[t] {
			seen[t] = true
			cands = append(cands, t)
		}
	}
	type skolem struct{ name, src, sort string }
	var skolems []skolem
	if o.rec != nil {
		for i, q := range o.rec.Quants {
			if !strings.Contains(goal, q.Text) || q.Ex || q.Neg {
				continue
			}
			if len(q.TVars) > 0 {
				var ts []Term
				for j := range q.TVars {
					sk := fmt.Sprintf("sk!%d!%d", i, j)
					extra = append(extra, "(declare-fun "+sk+" () "+q.TSort+")")
					if q.TSort == SStr {
						extra = append(extra, "(assert (and (>= (STRLEN "+sk+") 0) (= (= (STRLEN "+sk+") 0) (= "+sk+" EMPTYSTR))))")
					}
					ts = append(ts, sk)
					skolems = append(skolems, skolem{sk, q.TNames[j], q.TSort})
				}
				goal = strings.ReplaceAll(goal, q.Text, instTyped(q, ts))
				continue
			}
			sk := fmt.Sprintf("sk!%d", i)
			extra = append(extra, "(declare-fun "+sk+" () Int)")
			goal = strings.ReplaceAll(goal, q.Text, instQuant(q, sk))
			for _, ix := range q.Idx {
				addc(strings.ReplaceAll(ix, q.Var, sk))
			}
		}
		for _, ix := range o.rec.Idx {
			addc(ix)
		}
	}
	for _, it := range u.idxTerms {
		if it.pos <= o.Prefix {
			addc(it.t)
		}
	}
	if len(cands) > 24 {
		cands = cands[:24]
	}
	// universals in negative position are hypotheses of the goal: strengthen them with their instances (forall == forall /\ instances)
	if o.rec != nil {
		for _, q := range o.rec.Quants {
			if !q.Neg || len(q.Offs) == 0 || !strings.Contains(goal, q.Text) {
				continue
			}
			parts := []Term{q.Text}
			seenI := map[Term]bool{}
			for _, w := range u.witnesses {
				if w.pos <= o.Prefix {
					inst := instQuant(q, w.t)
					if !seenI[inst] {
						seenI[inst] = true
						parts = append(parts, inst)
					}
				}
			}
			for _, off := range q.Offs {
				for _, c := range cands {
					inst := instQuant(q, "(- "+c+" "+off+")")
					if !seenI[inst] {
						seenI[inst] = true
						parts = append(parts, inst)
					}
				}
			}
			goal = strings.ReplaceAll(goal, q.Text, "(and "+strings.Join(parts, " ")+")")
		}
	}
	// existential goals: offer the candidate index terms as witnesses (goal' = goal \/ instances, and instances => goal)
	if o.rec != nil {
		for _, q := range o.rec.Quants {
			if !q.Ex || !strings.Contains(goal, q.Text) {
				continue
			}
			alts := []Term{q.Text}
			offs := map[Term]bool{"0": true}
			for _, off := range q.Offs {
				offs[off] = true
			}
			seenAlt := map[Term]bool{}
			for _, w := range u.witnesses {
				if w.pos <= o.Prefix {
					a := "(and " + strings.ReplaceAll(q.Rng, q.Var, w.t) + " " + strings.ReplaceAll(q.Body, q.Var, w.t) + ")"
					if !seenAlt[a] {
						seenAlt[a] = true
						alts = append(alts, a)
					}
				}
			}
			for off := range offs {
				for _, c := range cands {
					t := "(- " + c + " " + off + ")"
					a := "(and " + strings.ReplaceAll(q.Rng, q.Var, t) + " " + strings.ReplaceAll(q.Body, q.Var, t) + ")"
					if !seenAlt[a] {
						seenAlt[a] = true
						alts = append(alts, a)
					}
				}
			}
			goal = strings.ReplaceAll(goal, q.Text, "(or "+strings.Join(alts, " ")+")")
		}
	}
	if o.rec != nil {
		seenF := map[Term]bool{}
		for _, f := range o.rec.Facts {
			if !seenF[f] {
				seenF[f] = true
				extra = append(extra, "(assert "+f+")")
			}
		}
	}
	// Instances of the universals of one hypothesis F are put into ONE copy of F: every universal is replaced by
	// (and universal instances...), which is equivalent to it whatever its position. (One copy of F per instance
	// made queries of tens of megabytes for hypotheses with several quantifiers.)
	type group struct {
		F, cur Term
	}
	var groups []*group
	byF := map[Term]*group{}
	done := map[string]bool{}
	for _, h := range u.hyps {
		if h.pos > o.Prefix {
			continue
		}
		if mine := propTags(o.Label); h.tag != "" && len(mine) > 0 {
			keep := false
			for _, m := range mine {
				if strings.Contains(h.tag, m) {
					keep = true
				}
			}
			if !keep {
				continue
			}
		}
		var insts []Term
		seenI := map[Term]bool{}
		addi := func(t Term) {
			if !seenI[t] && t != h.q.Text {
				seenI[t] = true
				insts = append(insts, t)
			}
		}
		if len(h.q.TVars) > 0 {
			// typed quantifier: instantiate with the goal's skolem constants of the same source name
			var ts []Term
			for _, nm := range h.q.TNames {
				var pick Term
				for _, sk := range skolems {
					if sk.src == nm && sk.sort == h.q.TSort {
						pick = sk.name
					}
				}
				if pick == "" {
					break
				}
				ts = append(ts, pick)
			}
			if len(ts) == len(h.q.TVars) {
				addi(instTyped(h.q, ts))
			}
		} else {
			for _, w := range u.witnesses {
				if w.pos <= o.Prefix {
					addi(instQuant(h.q, w.t))
				}
			}
			offs := map[Term]bool{}
			var offl []Term
			for _, off := range h.q.Offs {
				if !offs[off] {
					offs[off] = true
					offl = append(offl, off)
				}
			}
			for _, off := range offl {
				for _, c := range cands {
					addi(instQuant(h.q, "(- "+c+" "+off+")"))
				}
			}
		}
		if len(insts) == 0 {
			continue
		}
		g := byF[h.F]
		if g == nil {
			g = &group{F: h.F, cur: h.F}
			byF[h.F] = g
			groups = append(groups, g)
		}
		if strings.Contains(g.cur, h.q.Text) {
			g.cur = strings.ReplaceAll(g.cur, h.q.Text, "(and "+h.q.Text+" "+strings.Join(insts, " ")+")")
			continue
		}
		for _, in := range insts {
			inst := strings.ReplaceAll(h.F, h.q.Text, in)
			if !done[inst] {
				done[inst] = true
				extra = append(extra, "(assert "+inst+")")
			}
		}
	}
	for _, g := range groups {
		if g.cur != g.F && !done[g.cur] {
			done[g.cur] = true
			extra = append(extra, "(assert "+g.cur+")")
		}
	}
	return goal, extra
}

func (u *Unit) Notes() []string { return u.notes }

// SafeName makes an obligation name usable as a file name.
func SafeName(s string) string {
	var b strings.Builder
	for _, c := range s {
		switch {
		case c >= 'a' && c <= 'z', c >= 'A' && c <= 'Z', c >= '0' && c <= '9', c == '.', c == '-', c == '_':
			b.WriteRune(c)
		default:
			b.WriteByte('_')
		}
	}
	return b.String()
}

// isGhostTrace reports whether a component belongs to the ghost event trace (never havocked with the heap).
func isGhostTrace(name string) bool {
	return name == "clock" || strings.HasPrefix(name, "cnt_") || strings.HasPrefix(name, "arg_") || strings.HasPrefix(name, "at_") || strings.HasPrefix(name, "GM_")
}

func (u *Unit) RepoCallees() []string { return sortedKeys(u.repoCallees) }

// ScanObligation wraps the result of a syntactic whole-package scan as an obligation.
func ScanObligation(name, src string, ok bool, detail string) *Obligation {
	u := newUnit(nil, name)
	o := &Obligation{Name: name, Func: name, Kind: "scan", Src: src, Guard: "true", Goal: "true", unit: u}
	if !ok {
		o.Kind = "bind"
		o.Src = src + ": " + detail
		o.Goal = "false"
	}
	return o
}

var goTypeInSort = regexp.MustCompile(`[a-z]+\.[A-Z][A-Za-z]*`)

// ghostSort resolves Go type names (pkg.Type) inside a ghost sort to the SMT sort of that type.
func (u *Unit) ghostSort(s string) string {
	return goTypeInSort.ReplaceAllStringFunc(s, func(m string) string {
		k := strings.Index(m, ".")
		if t := u.P.lookupType(nil, m[:k], m[k+1:]); t != nil {
			return u.sorts.sortOf(t)
		}
		return m
	})
}
