package vc

import (
	"fmt"
	"strconv"
	"strings"
	"unicode"
)

// Contract expression AST.
type Expr interface{}

type (
	EIdent struct{ Name string }
	EInt   struct{ V string }
	EStr   struct{ V string }
	EBool  struct{ V bool }
	ENil   struct{}
	EUnary struct {
		Op string
		X  Expr
	}
	EBinary struct {
		Op   string
		L, R Expr
	}
	ESel struct {
		X    Expr
		Name string
	}
	EIndex struct{ X, I Expr }
	ESlice struct{ X, Lo, Hi Expr }
	ECall  struct {
		Fun  string
		Args []Expr
	}
	EAssert struct {
		X Expr
		T Expr
	}
	EPtrType struct{ X Expr } // *T in type position
)

type tok struct {
	kind string // id, int, str, op, eof
	text string
}

func lex(s string) ([]tok, error) {
	var toks []tok
	i := 0
	for i < len(s) {
		c := s[i]
		switch {
		case c == ' ' || c == '\t' || c == '\n':
			i++
		case unicode.IsLetter(rune(c)) || c == '_' || c == '$':
			j := i + 1
			for j < len(s) && (unicode.IsLetter(rune(s[j])) || unicode.IsDigit(rune(s[j])) || s[j] == '_' || s[j] == '$') {
				j++
			}
			toks = append(toks, tok{"id", s[i:j]})
			i = j
		case unicode.IsDigit(rune(c)):
			j := i + 1
			for j < len(s) && (unicode.IsDigit(rune(s[j])) || s[j] == '.' && j+1 < len(s) && unicode.IsDigit(rune(s[j+1]))) {
				j++
			}
			toks = append(toks, tok{"int", s[i:j]})
			i = j
		case c == '"':
			j := i + 1
			for j < len(s) && s[j] != '"' {
				if s[j] == '\\' {
					j++
				}
				j++
			}
			if j >= len(s) {
				return nil, fmt.Errorf("unterminated string in %q", s)
			}
			v, err := strconv.Unquote(s[i : j+1])
			if err != nil {
				return nil, fmt.Errorf("bad string %s: %v", s[i:j+1], err)
			}
			toks = append(toks, tok{"str", v})
			i = j + 1
		case c == '\'':
			j := i + 1
			for j < len(s) && s[j] != '\'' {
				if s[j] == '\\' {
					j++
				}
				j++
			}
			r, _, _, err := strconv.UnquoteChar(s[i+1:j], '\'')
			if err != nil {
				return nil, fmt.Errorf("bad char literal in %q", s)
			}
			toks = append(toks, tok{"int", strconv.Itoa(int(r))})
			i = j + 1
		default:
			ops := []string{"<==>", "==>", "==", "!=", "<=", ">=", "&&", "||", ":=", "::", ".("}
			matched := false
			for _, op := range ops {
				if strings.HasPrefix(s[i:], op) {
					toks = append(toks, tok{"op", op})
					i += len(op)
					matched = true
					break
				}
			}
			if !matched {
				toks = append(toks, tok{"op", string(c)})
				i++
			}
		}
	}
	toks = append(toks, tok{"eof", ""})
	return toks, nil
}

type parser struct {
	toks []tok
	pos  int
	src  string
}

func ParseExpr(s string) (e Expr, err error) {
	toks, err := lex(s)
	if err != nil {
		return nil, err
	}
	p := &parser{toks: toks, src: s}
	defer func() {
		if r := recover(); r != nil {
			if pe, ok := r.(parseErr); ok {
				err = fmt.Errorf("%s in %q", string(pe), s)
				return
			}
			panic(r)
		}
	}()
	e = p.expr()
	if p.peek().kind != "eof" {
		p.fail("unexpected " + p.peek().text)
	}
	return e, nil
}

type parseErr string

func (p *parser) fail(msg string) { panic(parseErr(msg)) }
func (p *parser) peek() tok     { return p.toks[p.pos] }
func (p *parser) next() tok     { t := p.toks[p.pos]; p.pos++; return t }
func (p *parser) isOp(s string) bool {
	t := p.peek()
	return t.kind == "op" && t.text == s
}
func (p *parser) accept(s string) bool {
	if p.isOp(s) {
		p.pos++
		return true
	}
	return false
}
func (p *parser) expect(s string) {
	if !p.accept(s) {
		p.fail("expected " + s + " got " + p.peek().text)
	}
}

func (p *parser) expr() Expr {
	l := p.orE()
	if p.accept("==>") {
		r := p.expr()
		return EBinary{"==>", l, r}
	}
	if p.accept("<==>") {
		r := p.expr()
		return EBinary{"<==>", l, r}
	}
	return l
}

func (p *parser) orE() Expr {
	l := p.andE()
	for p.accept("||") {
		l = EBinary{"||", l, p.andE()}
	}
	return l
}

func (p *parser) andE() Expr {
	l := p.cmpE()
	for p.accept("&&") {
		l = EBinary{"&&", l, p.cmpE()}
	}
	return l
}

func (p *parser) cmpE() Expr {
	l := p.addE()
	for _, op := range []string{"==", "!=", "<=", ">=", "<", ">"} {
		if p.accept(op) {
			return EBinary{op, l, p.addE()}
		}
	}
	return l
}

func (p *parser) addE() Expr {
	l := p.mulE()
	for {
		switch {
		case p.accept("+"):
			l = EBinary{"+", l, p.mulE()}
		case p.accept("-"):
			l = EBinary{"-", l, p.mulE()}
		default:
			return l
		}
	}
}

func (p *parser) mulE() Expr {
	l := p.unaryE()
	for {
		switch {
		case p.accept("*"):
			l = EBinary{"*", l, p.unaryE()}
		case p.accept("/"):
			l = EBinary{"/", l, p.unaryE()}
		case p.accept("%"):
			l = EBinary{"%", l, p.unaryE()}
		default:
			return l
		}
	}
}

func (p *parser) unaryE() Expr {
	switch {
	case p.accept("!"):
		return EUnary{"!", p.unaryE()}
	case p.accept("-"):
		return EUnary{"-", p.unaryE()}
	case p.accept("*"):
		return EPtrType{p.unaryE()}
	}
	return p.postfix()
}

func (p *parser) postfix() Expr {
	e := p.primary()
	for {
		switch {
		case p.accept(".("):
			t := p.unaryE()
			p.expect(")")
			e = EAssert{e, t}
		case p.accept("."):
			t := p.next()
			if t.kind != "id" {
				p.fail("expected field name")
			}
			e = ESel{e, t.text}
		case p.accept("["):
			var lo, hi Expr
			if p.isOp(":") {
				p.next()
				if !p.isOp("]") {
					hi = p.expr()
				}
				p.expect("]")
				e = ESlice{e, nil, hi}
				continue
			}
			lo = p.expr()
			if p.accept(":") {
				if !p.isOp("]") {
					hi = p.expr()
				}
				p.expect("]")
				e = ESlice{e, lo, hi}
				continue
			}
			p.expect("]")
			e = EIndex{e, lo}
		case p.isOp("("):
			id, ok := e.(EIdent)
			if !ok {
				// qualified call pkg.f(...)
				if s, ok2 := e.(ESel); ok2 {
					if x, ok3 := s.X.(EIdent); ok3 {
						id = EIdent{x.Name + "." + s.Name}
						ok = true
					}
				}
			}
			if !ok {
				p.fail("call of non-identifier")
			}
			p.next()
			var args []Expr
			for !p.isOp(")") {
				args = append(args, p.expr())
				if !p.accept(",") {
					break
				}
			}
			p.expect(")")
			e = ECall{id.Name, args}
		default:
			return e
		}
	}
}

func (p *parser) primary() Expr {
	t := p.next()
	switch t.kind {
	case "id":
		switch t.text {
		case "true":
			return EBool{true}
		case "false":
			return EBool{false}
		case "nil":
			return ENil{}
		}
		return EIdent{t.text}
	case "int":
		return EInt{t.text}
	case "str":
		return EStr{t.text}
	case "op":
		if t.text == "(" {
			e := p.expr()
			p.expect(")")
			return e
		}
	}
	p.fail("unexpected token " + t.text)
	return nil
}

// exprString renders an expression (diagnostics, evidence samples).
func exprString(e Expr) string {
	switch x := e.(type) {
	case EIdent:
		return x.Name
	case EInt:
		return x.V
	case EStr:
		return strconv.Quote(x.V)
	case EBool:
		return fmt.Sprint(x.V)
	case ENil:
		return "nil"
	case EUnary:
		return x.Op + exprString(x.X)
	case EBinary:
		return "(" + exprString(x.L) + " " + x.Op + " " + exprString(x.R) + ")"
	case ESel:
		return exprString(x.X) + "." + x.Name
	case EIndex:
		return exprString(x.X) + "[" + exprString(x.I) + "]"
	case ESlice:
		lo, hi := "", ""
		if x.Lo != nil {
			lo = exprString(x.Lo)
		}
		if x.Hi != nil {
			hi = exprString(x.Hi)
		}
		return exprString(x.X) + "[" + lo + ":" + hi + "]"
	case ECall:
		var as []string
		for _, a := range x.Args {
			as = append(as, exprString(a))
		}
		return x.Fun + "(" + strings.Join(as, ", ") + ")"
	case EAssert:
		return exprString(x.X) + ".(" + exprString(x.T) + ")"
	case EPtrType:
		return "*" + exprString(x.X)
	}
	return "?"
}
