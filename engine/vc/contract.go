package vc

import (
	"fmt"
	"os"
	"path/filepath"
	"regexp"
	"sort"
	"strconv"
	"strings"
)

type Clause struct {
	Label string
	Expr  Expr
	Src   string
	File  string
	Line  int
}

// Guarded declares that the map field Field of struct Struct is only accessed while the mutex field Lock of the same
// struct is held, and that Inv (over $o, the struct pointer) holds whenever the mutex is free. Acquiring the mutex
// forgets the map's content and assumes Inv; releasing it has to re-establish Inv; every access is an event.
type Guarded struct {
	Struct, Field, Lock string
	Inv                 Clause
	Pkg                 string
}

type LoopContract struct {
	N          int
	Invariants []Clause
	Decreases  *Clause
	Used       bool
}

type EmitSpec struct {
	Kind string
	Args []Expr
	When Expr
	Src  string
}

type CallAssert struct {
	Callee string // substring of callee key
	Ord    int    // 1-based among calls matching Callee; 0 = every
	Clause Clause
	Used   bool // set when a call site of the function under verification matched it
}

type FuncContract struct {
	Key        string
	Params     []string
	Results    []string
	Requires   []Clause
	Ensures    []Clause
	Assigns    []Expr // locations (lvalue expressions evaluated in the pre-state)
	AssignsSrc []string
	Elems      []Expr // slices whose elements may be written
	Emits      []string
	EmitEvents []EmitSpec
	Havoc      []string // whole components havocked (trusted specs only), "*" = everything
	Loops      map[int]*LoopContract
	CallAsserts []CallAssert
	Trusted    bool
	Inline     bool
	NoSafety   bool
	ExactStrings bool // force the SMT string theory for this unit (string concatenation in the code matters)
	Pkg        string // home package of the contract text (for unqualified names); "" = caller's
	File       string
	Line       int
	Bound      bool
}

type Pred struct {
	Pkg    string
	Name   string
	Params []string
	Body   Expr
	Src    string
}

type SpecFn struct {
	Name   string
	Params []string // sorts
	Result string
}

type TypedVar struct{ Name, Sort string }

type Axiom struct {
	Label string
	Vars  []TypedVar
	Body  Expr
	Src   string
	File  string
	Line  int
	Lemma bool
	// Trigger patterns are chosen by the solver.
}

type EventDecl struct {
	Kind string
	Args []TypedVar
}

type GhostField struct {
	Struct string // e.g. xmpp.Session
	Name   string
	Sort   string
}

type Contracts struct {
	Funcs   map[string]*FuncContract
	Preds   map[string]*Pred
	Specs   map[string]*SpecFn
	Axioms  []*Axiom
	Lemmas  []*Axiom
	Events  map[string]*EventDecl
	Ghosts  map[string]*GhostField // key Struct.Name
	GhostMaps map[string]*GhostField // ghost map name -> (Struct = key sort, Sort = value sort)
	Files   []string
	Assumes []string // any 'assume' found in contract files (reported)
	Guarded []*Guarded // maps protected by a mutex of the same struct (lock invariant, havoc on acquire)
	GlobalInvs []Clause // facts about package-level variables established by package initialisation and never changed
}

func NewContracts() *Contracts {
	return &Contracts{Funcs: map[string]*FuncContract{}, Preds: map[string]*Pred{}, Specs: map[string]*SpecFn{},
		Events: map[string]*EventDecl{}, Ghosts: map[string]*GhostField{}, GhostMaps: map[string]*GhostField{}}
}

var keywords = map[string]bool{"func": true, "requires": true, "ensures": true, "assigns": true, "elems": true, "emits": true, "emit": true,
	"loop": true, "invariant": true, "decreases": true, "pred": true, "spec": true, "axiom": true, "lemma": true, "event": true,
	"ghost": true, "at": true, "inline": true, "bounded": true, "exactstrings": true, "globalinv": true, "havoc": true, "nosafety": true, "assume": true, "guarded": true}

type rawLine struct {
	text string
	file string
	line int
}

// LoadFile reads a contract file. For .go files only lines starting with //@ are used.
func (cs *Contracts) LoadFile(path string, trusted bool) error {
	data, err := os.ReadFile(path)
	if err != nil {
		return err
	}
	cs.Files = append(cs.Files, path)
	isGo := strings.HasSuffix(path, ".go")
	var lines []rawLine
	for i, l := range strings.Split(string(data), "\n") {
		if isGo {
			t := strings.TrimSpace(l)
			if !strings.HasPrefix(t, "//@") {
				continue
			}
			l = strings.TrimPrefix(t, "//@")
		}
		if k := strings.Index(l, " ## "); k >= 0 {
			l = l[:k]
		}
		t := strings.TrimSpace(l)
		if t == "" || strings.HasPrefix(t, "#") {
			continue
		}
		first := t
		if k := strings.IndexAny(t, " \t(:"); k >= 0 {
			first = t[:k]
		}
		if keywords[first] || len(lines) == 0 {
			lines = append(lines, rawLine{t, path, i + 1})
		} else {
			lines[len(lines)-1].text += " " + t
		}
	}
	home := ""
	if !trusted {
		home = "xmpp"
		if strings.Contains(path, "/stanza/") {
			home = "stanza"
		}
	}
	return cs.parseLines(lines, trusted, home)
}

var labelRe = regexp.MustCompile(`^\[([A-Za-z0-9_.,\-]+)\]\s*`)
var funcRe = regexp.MustCompile(`^func\s+(\S+?)\(([^)]*)\)\s*(?:\(([^)]*)\))?\s*$`)

func splitNames(s string) []string {
	var out []string
	for _, p := range strings.Split(s, ",") {
		p = strings.TrimSpace(p)
		if p != "" {
			out = append(out, p)
		}
	}
	return out
}

func parseClause(rest string, rl rawLine) (Clause, error) {
	c := Clause{File: rl.file, Line: rl.line}
	if m := labelRe.FindStringSubmatch(rest); m != nil {
		c.Label = m[1]
		rest = rest[len(m[0]):]
	}
	c.Src = rest
	e, err := ParseExpr(rest)
	if err != nil {
		return c, fmt.Errorf("%s:%d: %v", rl.file, rl.line, err)
	}
	c.Expr = e
	return c, nil
}

func parseTypedVars(s string) ([]TypedVar, error) {
	var out []TypedVar
	for _, p := range splitNames(s) {
		f := strings.Fields(p)
		if len(f) != 2 {
			return nil, fmt.Errorf("bad typed variable %q", p)
		}
		out = append(out, TypedVar{f[0], f[1]})
	}
	return out, nil
}

func (cs *Contracts) parseLines(lines []rawLine, trusted bool, home string) error {
	var cur *FuncContract
	var curLoop *LoopContract
	for _, rl := range lines {
		t := rl.text
		kw := t
		rest := ""
		if k := strings.IndexAny(t, " \t"); k >= 0 {
			kw, rest = t[:k], strings.TrimSpace(t[k+1:])
		}
		errf := func(f string, a ...interface{}) error {
			return fmt.Errorf("%s:%d: %s", rl.file, rl.line, fmt.Sprintf(f, a...))
		}
		switch {
		case kw == "func":
			m := funcRe.FindStringSubmatch(t)
			if m == nil {
				return errf("bad func header %q", t)
			}
			cur = &FuncContract{Key: m[1], Params: splitNames(m[2]), Results: splitNames(m[3]), Loops: map[int]*LoopContract{},
				Trusted: trusted, File: rl.file, Line: rl.line, Pkg: home}
			if _, dup := cs.Funcs[cur.Key]; dup {
				return errf("duplicate contract for %s", cur.Key)
			}
			cs.Funcs[cur.Key] = cur
			curLoop = nil
		case kw == "requires" || kw == "ensures" || kw == "invariant" || kw == "decreases":
			if cur == nil {
				return errf("%s outside func", kw)
			}
			c, err := parseClause(rest, rl)
			if err != nil {
				return err
			}
			switch kw {
			case "requires":
				cur.Requires = append(cur.Requires, c)
			case "ensures":
				cur.Ensures = append(cur.Ensures, c)
			case "invariant":
				if curLoop == nil {
					return errf("invariant outside loop")
				}
				curLoop.Invariants = append(curLoop.Invariants, c)
			case "decreases":
				if curLoop == nil {
					return errf("decreases outside loop")
				}
				curLoop.Decreases = &c
			}
		case strings.HasPrefix(kw, "loop"):
			if cur == nil {
				return errf("loop outside func")
			}
			f := strings.Fields(strings.TrimSuffix(strings.TrimSpace(rest), ":"))
			if len(f) < 1 {
				return errf("bad loop header")
			}
			n, err := strconv.Atoi(strings.TrimSuffix(f[0], ":"))
			if err != nil {
				return errf("bad loop ordinal %q", f[0])
			}
			curLoop = &LoopContract{N: n}
			cur.Loops[n] = curLoop
		case kw == "assigns" || kw == "elems":
			if cur == nil {
				return errf("%s outside func", kw)
			}
			for _, p := range splitTop(rest) {
				if p == "*" {
					cur.Assigns = append(cur.Assigns, EIdent{"*"})
					cur.AssignsSrc = append(cur.AssignsSrc, p)
					continue
				}
				e, err := ParseExpr(p)
				if err != nil {
					return errf("%v", err)
				}
				if kw == "assigns" {
					cur.Assigns = append(cur.Assigns, e)
					cur.AssignsSrc = append(cur.AssignsSrc, p)
				} else {
					cur.Elems = append(cur.Elems, e)
				}
			}
		case kw == "emits":
			if cur == nil {
				return errf("emits outside func")
			}
			cur.Emits = append(cur.Emits, splitNames(rest)...)
		case kw == "havoc":
			if cur == nil {
				return errf("havoc outside func")
			}
			cur.Havoc = append(cur.Havoc, splitNames(rest)...)
		case kw == "inline":
			if cur == nil {
				return errf("inline outside func")
			}
			cur.Inline = true
		case kw == "exactstrings":
			if cur == nil {
				return errf("exactstrings outside func")
			}
			cur.ExactStrings = true
		case kw == "bounded":
			if cur == nil {
				return errf("bounded outside func")
			}
			cur.Bound = true
		case kw == "nosafety":
			if cur == nil {
				return errf("nosafety outside func")
			}
			cur.NoSafety = true
		case kw == "emit":
			// emit Kind(args...) [when cond]
			if cur == nil {
				return errf("emit outside func")
			}
			when := ""
			body := rest
			if k := strings.Index(rest, " when "); k >= 0 {
				body, when = rest[:k], rest[k+6:]
			}
			e, err := ParseExpr(body)
			if err != nil {
				return errf("%v", err)
			}
			var es EmitSpec
			switch x := e.(type) {
			case ECall:
				es = EmitSpec{Kind: x.Fun, Args: x.Args, Src: rest}
			case EIdent:
				es = EmitSpec{Kind: x.Name, Src: rest}
			default:
				return errf("bad emit %q", rest)
			}
			if when != "" {
				w, err := ParseExpr(when)
				if err != nil {
					return errf("%v", err)
				}
				es.When = w
			}
			cur.EmitEvents = append(cur.EmitEvents, es)
			cur.Emits = append(cur.Emits, es.Kind)
		case kw == "at":
			// at call <callee>[@k] assert [label] expr
			m := regexp.MustCompile(`^call\s+(\S+?)(?:@(\d+))?\s+assert\s+(.*)$`).FindStringSubmatch(rest)
			if m == nil || cur == nil {
				return errf("bad 'at call' clause")
			}
			c, err := parseClause(m[3], rl)
			if err != nil {
				return err
			}
			ord := 0
			if m[2] != "" {
				ord, _ = strconv.Atoi(m[2])
			}
			cur.CallAsserts = append(cur.CallAsserts, CallAssert{Callee: m[1], Ord: ord, Clause: c})
		case kw == "pred":
			m := regexp.MustCompile(`^(\w+)\(([^)]*)\)\s*:=\s*(.*)$`).FindStringSubmatch(rest)
			if m == nil {
				return errf("bad pred %q", rest)
			}
			e, err := ParseExpr(m[3])
			if err != nil {
				return errf("%v", err)
			}
			if _, dup := cs.Preds[m[1]]; dup {
				return errf("duplicate pred %s", m[1])
			}
			cs.Preds[m[1]] = &Pred{Name: m[1], Params: splitNames(m[2]), Body: e, Src: m[3], Pkg: home}
			cur = nil
		case kw == "spec":
			m := regexp.MustCompile(`^(\w+)\(([^)]*)\)\s*(\w+)$`).FindStringSubmatch(rest)
			if m == nil {
				return errf("bad spec %q", rest)
			}
			var ps []string
			for _, p := range splitNames(m[2]) {
				f := strings.Fields(p)
				ps = append(ps, f[len(f)-1])
			}
			cs.Specs[m[1]] = &SpecFn{Name: m[1], Params: ps, Result: m[3]}
			cur = nil
		case kw == "axiom" || kw == "lemma":
			ax := &Axiom{File: rl.file, Line: rl.line, Lemma: kw == "lemma"}
			if m := labelRe.FindStringSubmatch(rest); m != nil {
				ax.Label = m[1]
				rest = rest[len(m[0]):]
			}
			if k := strings.Index(rest, "::"); k >= 0 {
				vs := strings.TrimSpace(rest[:k])
				vs = strings.TrimPrefix(vs, "forall")
				tv, err := parseTypedVars(vs)
				if err != nil {
					return errf("%v", err)
				}
				ax.Vars = tv
				rest = strings.TrimSpace(rest[k+2:])
			}
			e, err := ParseExpr(rest)
			if err != nil {
				return errf("%v", err)
			}
			ax.Body, ax.Src = e, rest
			if ax.Lemma {
				cs.Lemmas = append(cs.Lemmas, ax)
			} else {
				cs.Axioms = append(cs.Axioms, ax)
			}
			cur = nil
		case kw == "event":
			m := regexp.MustCompile(`^(\w+)\(([^)]*)\)$`).FindStringSubmatch(rest)
			if m == nil {
				return errf("bad event %q", rest)
			}
			tv, err := parseTypedVars(m[2])
			if err != nil {
				return errf("%v", err)
			}
			cs.Events[m[1]] = &EventDecl{Kind: m[1], Args: tv}
			cur = nil
		case kw == "ghost":
			// ghost field xmpp.Session.stanzasSeen Int
			f := strings.Fields(rest)
			if len(f) >= 4 && f[0] == "map" {
				// ghost map written Ref Str   |   ghost map openNames Ref (Array Int xml.Name)
				cs.GhostMaps[f[1]] = &GhostField{Name: f[1], Struct: f[2], Sort: strings.Join(f[3:], " ")}
				cur = nil
				continue
			}
			if len(f) != 3 || f[0] != "field" {
				return errf("bad ghost decl %q", rest)
			}
			k := strings.LastIndex(f[1], ".")
			cs.Ghosts[f[1]] = &GhostField{Struct: f[1][:k], Name: f[1][k+1:], Sort: f[2]}
			cur = nil
		case kw == "guarded":
			// guarded xmpp.Router.IQResultRoutes by IQResultRouteLock [label] invariant <expr over $o>
			m := regexp.MustCompile(`^(\S+)\.(\w+)\s+by\s+(\w+)\s+(.*)$`).FindStringSubmatch(rest)
			if m == nil {
				return errf("bad guarded declaration %q", rest)
			}
			r2 := strings.TrimSpace(m[4])
			label := ""
			if lm := labelRe.FindStringSubmatch(r2); lm != nil {
				label = lm[0]
				r2 = strings.TrimSpace(r2[len(lm[0]):])
			}
			if !strings.HasPrefix(r2, "invariant") {
				return errf("guarded: missing invariant in %q", rest)
			}
			c, err := parseClause(label+strings.TrimSpace(strings.TrimPrefix(r2, "invariant")), rl)
			if err != nil {
				return err
			}
			cs.Guarded = append(cs.Guarded, &Guarded{Struct: m[1], Field: m[2], Lock: m[3], Inv: c, Pkg: home})
			cur = nil
		case kw == "globalinv":
			c, err := parseClause(rest, rl)
			if err != nil {
				return err
			}
			c.Label = home
			cs.GlobalInvs = append(cs.GlobalInvs, c)
			cur = nil
		case kw == "assume":
			cs.Assumes = append(cs.Assumes, fmt.Sprintf("%s:%d: %s", rl.file, rl.line, rest))
			return errf("'assume' is not allowed in contract files")
		default:
			return errf("unknown clause %q", kw)
		}
	}
	return nil
}

// splitTop splits on commas not nested in parentheses or brackets.
func splitTop(s string) []string {
	var out []string
	d, start := 0, 0
	for i, c := range s {
		switch c {
		case '(', '[':
			d++
		case ')', ']':
			d--
		case ',':
			if d == 0 {
				out = append(out, strings.TrimSpace(s[start:i]))
				start = i + 1
			}
		}
	}
	if strings.TrimSpace(s[start:]) != "" {
		out = append(out, strings.TrimSpace(s[start:]))
	}
	return out
}

// LoadAll loads the in-repo contract files (guarded by the verif tag) and the trusted specs.
func LoadAll(repo, verif string) (*Contracts, error) {
	cs := NewContracts()
	var repoFiles []string
	filepath.Walk(repo, func(p string, info os.FileInfo, err error) error {
		if err != nil {
			return nil
		}
		if info.IsDir() && (info.Name() == ".git" || info.Name() == "_examples" || info.Name() == "cmd") {
			return filepath.SkipDir
		}
		if !info.IsDir() && strings.HasSuffix(info.Name(), "_contracts_verif.go") {
			repoFiles = append(repoFiles, p)
		}
		return nil
	})
	sort.Strings(repoFiles)
	tr, _ := filepath.Glob(filepath.Join(verif, "contracts", "trusted", "*.spec"))
	sort.Strings(tr)
	for _, f := range tr {
		if err := cs.LoadFile(f, true); err != nil {
			return nil, err
		}
	}
	for _, f := range repoFiles {
		if err := cs.LoadFile(f, false); err != nil {
			return nil, err
		}
	}
	return cs, nil
}
