// Package vc is govc: a verification-condition generator for Go on top of go/ssa.
// See /verif/DESIGN.md section 2 for the model. This file: sorts and SMT helpers.
package vc

import (
	"fmt"
	"go/types"
	"sort"
	"strings"
)

// Term is an SMT-LIB term in concrete syntax.
type Term = string

// Sort names.
const (
	SInt   = "Int"
	SBool  = "Bool"
	SReal  = "Real"
	SStr   = "Str" // String or an uninterpreted sort, per unit (see Unit.strSMT)
	SRef   = "Ref"
	SIface = "Iface"
	SSlice = "Slice"
	SUnit  = "Opaque"
)

func and(ts ...Term) Term {
	var out []Term
	for _, t := range ts {
		if t == "true" || t == "" {
			continue
		}
		if t == "false" {
			return "false"
		}
		out = append(out, t)
	}
	switch len(out) {
	case 0:
		return "true"
	case 1:
		return out[0]
	}
	return "(and " + strings.Join(out, " ") + ")"
}

func or(ts ...Term) Term {
	var out []Term
	for _, t := range ts {
		if t == "false" || t == "" {
			continue
		}
		if t == "true" {
			return "true"
		}
		out = append(out, t)
	}
	switch len(out) {
	case 0:
		return "false"
	case 1:
		return out[0]
	}
	return "(or " + strings.Join(out, " ") + ")"
}

func not(t Term) Term {
	switch t {
	case "true":
		return "false"
	case "false":
		return "true"
	}
	if strings.HasPrefix(t, "(not ") && balanced(t[5:len(t)-1]) {
		return t[5 : len(t)-1]
	}
	return "(not " + t + ")"
}

func balanced(s string) bool {
	d := 0
	for i, c := range s {
		switch c {
		case '(':
			d++
		case ')':
			d--
			if d == 0 && i != len(s)-1 {
				return false
			}
			if d < 0 {
				return false
			}
		case ' ':
			if d == 0 {
				return false
			}
		}
	}
	return d == 0
}

func implies(a, b Term) Term {
	if a == "true" {
		return b
	}
	if b == "true" || a == "false" {
		return "true"
	}
	return "(=> " + a + " " + b + ")"
}

func eq(a, b Term) Term {
	if a == b {
		return "true"
	}
	return "(= " + a + " " + b + ")"
}

func ite(c, a, b Term) Term {
	if c == "true" || a == b {
		return a
	}
	if c == "false" {
		return b
	}
	return "(ite " + c + " " + a + " " + b + ")"
}

func app(f string, args ...Term) Term {
	if len(args) == 0 {
		return f
	}
	return "(" + f + " " + strings.Join(args, " ") + ")"
}

func intLit(n int64) Term {
	if n < 0 {
		return fmt.Sprintf("(- %d)", -n)
	}
	return fmt.Sprintf("%d", n)
}

func sel(a, i Term) Term      { return "(select " + a + " " + i + ")" }
func store(a, i, v Term) Term { return "(store " + a + " " + i + " " + v + ")" }

// smtIdent makes s usable as an SMT symbol.
func smtIdent(s string) string {
	var b strings.Builder
	for _, c := range s {
		switch {
		case c >= 'a' && c <= 'z', c >= 'A' && c <= 'Z', c >= '0' && c <= '9', c == '_', c == '.', c == '$', c == '@', c == '!':
			b.WriteRune(c)
		case c == '*':
			b.WriteString("P_")
		case c == '/':
			b.WriteString("_")
		case c == '(' || c == ')' || c == ' ':
		default:
			b.WriteString("_")
		}
	}
	return b.String()
}

// strLit renders a Go string as an SMT-LIB string literal (SMT-LIB 2.6 escapes).
func strLit(s string) Term {
	var b strings.Builder
	b.WriteByte('"')
	for _, r := range s {
		switch {
		case r == '"':
			b.WriteString(`""`)
		case r >= 0x20 && r < 0x7f && r != '\\':
			b.WriteRune(r)
		default:
			fmt.Fprintf(&b, `\u{%x}`, r)
		}
	}
	b.WriteByte('"')
	return b.String()
}

// ---------------------------------------------------------------------------
// Sorts from Go types.

// structInfo describes the SMT datatype generated for a Go struct type.
type structInfo struct {
	sort   string
	ctor   string
	fields []structField
	opaque bool
	gotype types.Type
	typ    *types.Struct
	named  string
}

type structField struct {
	name string
	sel  string
	typ  types.Type
	sort string
}

// Sorts keeps the sort universe for one Unit (the set of datatypes is global to the unit).
type Sorts struct {
	structs   map[string]*structInfo // key: type string
	order     []*structInfo
	elemSorts map[string]bool
	structural func(pkgPath string) bool
}

func newSorts() *Sorts {
	return &Sorts{structs: map[string]*structInfo{}, elemSorts: map[string]bool{},
		structural: func(p string) bool {
			return p == "gosrc.io/xmpp" || p == "gosrc.io/xmpp/stanza" || p == "encoding/xml" || p == "crypto/tls"
		}}
}

func isByteSlice(t types.Type) bool {
	if s, ok := t.Underlying().(*types.Slice); ok {
		if b, ok := s.Elem().Underlying().(*types.Basic); ok && b.Kind() == types.Uint8 {
			return true
		}
	}
	return false
}

// sortOf returns the SMT sort for a Go type.
func (ss *Sorts) sortOf(t types.Type) string {
	switch u := t.Underlying().(type) {
	case *types.Basic:
		switch {
		case u.Info()&types.IsBoolean != 0:
			return SBool
		case u.Info()&types.IsInteger != 0:
			return SInt
		case u.Info()&types.IsFloat != 0:
			return SReal
		case u.Info()&types.IsString != 0:
			return SStr
		case u.Kind() == types.UnsafePointer:
			return SRef
		case u.Kind() == types.UntypedNil:
			return SRef
		}
		return SInt
	case *types.Pointer, *types.Map, *types.Chan, *types.Signature:
		return SRef
	case *types.Interface:
		return SIface
	case *types.Slice:
		ss.elemSorts[ss.sortOf(u.Elem())] = true
		return SSlice
	case *types.Struct:
		return ss.structOf(t).sort
	case *types.Array:
		return SUnit
	case *types.Tuple:
		return "Tuple"
	}
	return SUnit
}

func (ss *Sorts) structOf(t types.Type) *structInfo {
	key := types.TypeString(t, nil)
	if si, ok := ss.structs[key]; ok {
		return si
	}
	st := t.Underlying().(*types.Struct)
	si := &structInfo{typ: st, gotype: t}
	ss.structs[key] = si
	opaque := false
	if n, ok := t.(*types.Named); ok {
		if n.Obj().Pkg() != nil && !ss.structural(n.Obj().Pkg().Path()) {
			opaque = true
		}
		si.named = n.Obj().Name()
	}
	if opaque {
		si.opaque = true
		si.sort = SUnit
		return si
	}
	name := smtIdent(key)
	if len(name) > 60 {
		name = name[:60] + fmt.Sprintf("_%d", len(ss.structs))
	}
	si.sort = "S_" + name
	si.ctor = "mk_" + name
	for i := 0; i < st.NumFields(); i++ {
		f := st.Field(i)
		si.fields = append(si.fields, structField{name: f.Name(), sel: fmt.Sprintf("%s.%s", name, f.Name()), typ: f.Type(), sort: ss.sortOf(f.Type())})
	}
	ss.order = append(ss.order, si)
	return si
}

func (ss *Sorts) zero(t types.Type) Term {
	switch s := ss.sortOf(t); s {
	case SInt:
		return "0"
	case SBool:
		return "false"
	case SReal:
		return "0.0"
	case SStr:
		return "EMPTYSTR"
	case SRef:
		return "null"
	case SIface:
		return "(mkIface 0 null)"
	case SSlice:
		return "(mkSlice 0 0 0 0)"
	case SUnit:
		return "unit"
	default:
		si := ss.structOf(t)
		if len(si.fields) == 0 {
			return si.ctor
		}
		var fs []Term
		for _, f := range si.fields {
			fs = append(fs, ss.zero(f.typ))
		}
		return app(si.ctor, fs...)
	}
}

// header renders sort and datatype declarations. strSMT selects String vs uninterpreted Str.
func (ss *Sorts) header(strSMT bool, heapSorts []string) string {
	var b strings.Builder
	if strSMT {
		b.WriteString("(define-sort Str () String)\n(define-fun EMPTYSTR () Str \"\")\n")
	} else {
		b.WriteString("(declare-sort Str 0)\n(declare-fun EMPTYSTR () Str)\n(declare-fun strlen (Str) Int)\n")
	}
	b.WriteString("(declare-datatypes ((Opaque 0)) (((unit))))\n")
	b.WriteString("(declare-datatypes ((Ref 0)) (((null) (obj (oid Int)) (sub (spar Ref) (sfld Int)))))\n")
	b.WriteString("(declare-fun rootid (Ref) Int)\n(assert (= (rootid null) (- 1)))\n(declare-fun dyntype (Ref) Int)\n(declare-fun basetype (Int) Int)\n")
	b.WriteString("(declare-datatypes ((Iface 0)) (((mkIface (tag Int) (val Ref)))))\n")
	b.WriteString("(declare-datatypes ((Slice 0)) (((mkSlice (sbase Int) (soff Int) (slen Int) (scap Int)))))\n")
	for _, si := range ss.order {
		if len(si.fields) == 0 {
			fmt.Fprintf(&b, "(declare-datatypes ((%s 0)) (((%s))))\n", si.sort, si.ctor)
			continue
		}
		fmt.Fprintf(&b, "(declare-datatypes ((%s 0)) (((%s", si.sort, si.ctor)
		for _, f := range si.fields {
			fmt.Fprintf(&b, " (%s %s)", f.sel, f.sort)
		}
		b.WriteString("))))\n")
	}
	_ = heapSorts
	return b.String()
}

func sortedKeys(m map[string]bool) []string {
	var ks []string
	for k := range m {
		ks = append(ks, k)
	}
	sort.Strings(ks)
	return ks
}
