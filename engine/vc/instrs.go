package vc

import (
	"fmt"
	"go/token"
	"go/types"
	"strings"

	"golang.org/x/tools/go/ssa"
)

func (fr *Frame) safe(st *State, kind string, pos token.Pos, src string, goal Term) {
	if fr.root.contract != nil && fr.root.contract.NoSafety {
		return
	}
	fr.u.oblige(fr.oblFn, "safe."+kind, "", fr.pos(pos), src, st.guard, goal)
}

func knownNonNil(t Term) bool {
	return strings.HasPrefix(t, "(sub ") || strings.HasPrefix(t, "(obj ")
}

// elemLoad reads the value at a slice-element address.
func (fr *Frame) elemLoad(st *State, a *Addr) Term {
	u := fr.u
	t := sel(sel(u.get(st, u.elemComp(a.ElemTyp)), a.Base), a.Idx)
	ct := a.ElemTyp
	for _, i := range a.Path {
		si := u.sorts.structOf(ct)
		t = "(" + si.fields[i].sel + " " + t + ")"
		ct = si.fields[i].typ
	}
	return t
}

// updatePath rebuilds a struct value with the field at path replaced.
func (u *Unit) updatePath(v Term, t types.Type, path []int, nv Term) Term {
	if len(path) == 0 {
		return nv
	}
	si := u.sorts.structOf(t)
	var fs []Term
	for i, f := range si.fields {
		cur := "(" + f.sel + " " + v + ")"
		if i == path[0] {
			cur = u.updatePath(cur, f.typ, path[1:], nv)
		}
		fs = append(fs, cur)
	}
	return app(si.ctor, fs...)
}

func (fr *Frame) elemStore(st *State, a *Addr, v Term) {
	u := fr.u
	comp := u.elemComp(a.ElemTyp)
	E := u.get(st, comp)
	inner := sel(E, a.Base)
	nv := v
	if len(a.Path) > 0 {
		nv = u.updatePath(sel(inner, a.Idx), a.ElemTyp, a.Path, v)
	}
	u.set(st, comp, store(E, a.Base, store(inner, a.Idx, nv)))
}

func (fr *Frame) exec(st *State, ins ssa.Instruction) {
	u := fr.u
	switch x := ins.(type) {
	case *ssa.Alloc:
		et := x.Type().Underlying().(*types.Pointer).Elem()
		a := u.get(st, "alloc")
		if arr, ok := et.Underlying().(*types.Array); ok {
			// pointer to array: a fresh backing array
			es := u.sorts.sortOf(arr.Elem())
			u.sorts.elemSorts[es] = true
			base := u.def("arr", SInt, a)
			u.set(st, "alloc", "(+ "+a+" 1)")
			zero := fmt.Sprintf("((as const (Array Int %s)) %s)", es, u.sorts.zero(arr.Elem()))
			u.set(st, u.elemComp(arr.Elem()), store(u.get(st, u.elemComp(arr.Elem())), base, zero))
			fr.vals[x] = Val{T: base, Sort: "arrptr", Typ: x.Type()}
			return
		}
		r := u.def(fr.fn.Name()+"_"+x.Name(), SRef, "(obj "+a+")")
		u.assume("(= (rootid " + r + ") " + a + ")")
		if _, isStruct := et.Underlying().(*types.Struct); isStruct {
			// guarded: another branch may allocate a different type at the same counter value
			u.assume(implies(st.guard, fmt.Sprintf("(= (dyntype %s) %d)", r, u.P.tagOf(x.Type()))))
		}
		u.set(st, "alloc", "(+ "+a+" 1)")
		u.storeTo(st, r, et, u.sorts.zero(et))
		fr.vals[x] = Val{T: r, Sort: SRef, Typ: x.Type()}
	case *ssa.FieldAddr:
		base := fr.val(x.X)
		if base.Addr != nil {
			na := *base.Addr
			si := u.sorts.structOf(na.Typ)
			na.Path = append(append([]int{}, na.Path...), x.Field)
			na.Typ = si.fields[x.Field].typ
			fr.vals[x] = Val{Sort: "elemaddr", Addr: &na, Typ: x.Type()}
			return
		}
		if !knownNonNil(base.T) {
			fr.safe(st, "nil", x.Pos(), "field address of nil pointer", not(eq(base.T, "null")))
		}
		t := u.mkSub(base.T, x.Field)
		fr.vals[x] = Val{T: t, Sort: SRef, Typ: x.Type(), FBase: base.T, FStruct: x.X.Type().Underlying().(*types.Pointer).Elem(), FIdx: x.Field}
	case *ssa.Field:
		base := fr.val(x.X)
		si := u.sorts.structOf(x.X.Type())
		if si.opaque {
			fr.vals[x] = u.goVal(u.fresh("opq", u.sorts.sortOf(x.Type())), x.Type())
			return
		}
		fr.setVal(st, x, "("+si.fields[x.Field].sel+" "+base.T+")")
	case *ssa.IndexAddr:
		base := fr.val(x.X)
		idx := fr.val(x.Index)
		switch base.Sort {
		case SSlice:
			et := x.X.Type().Underlying().(*types.Slice).Elem()
			es := u.sorts.sortOf(et)
			fr.safe(st, "index", x.Pos(), "index in range", "(and (<= 0 "+idx.T+") (< "+idx.T+" (slen "+base.T+")))")
			ixT := u.def("ix", SInt, "(+ (soff "+base.T+") "+idx.T+")")
			u.idxTerms = append(u.idxTerms, idxAt{len(u.cmds), ixT})
			fr.vals[x] = Val{Sort: "elemaddr", Typ: x.Type(), Addr: &Addr{Base: "(sbase " + base.T + ")", Idx: ixT, ElemSort: es, ElemTyp: et, Typ: et}}
		case "arrptr":
			arr := x.X.Type().Underlying().(*types.Pointer).Elem().Underlying().(*types.Array)
			es := u.sorts.sortOf(arr.Elem())
			fr.safe(st, "index", x.Pos(), "index in range", fmt.Sprintf("(and (<= 0 %s) (< %s %d))", idx.T, idx.T, arr.Len()))
			fr.vals[x] = Val{Sort: "elemaddr", Typ: x.Type(), Addr: &Addr{Base: base.T, Idx: idx.T, ElemSort: es, ElemTyp: arr.Elem(), Typ: arr.Elem()}}
		default:
			u.unsupported("%s: IndexAddr on %s at %s", fr.oblFn, base.Sort, fr.pos(x.Pos()))
			fr.vals[x] = Val{T: u.fresh("ia", SRef), Sort: SRef, Typ: x.Type()}
		}
	case *ssa.UnOp:
		fr.unop(st, x)
	case *ssa.BinOp:
		fr.binop(st, x)
	case *ssa.Store:
		addr := fr.val(x.Addr)
		v := fr.val(x.Val)
		if addr.Addr != nil {
			fr.frameElem(st, addr.Addr.Base, x.Pos())
			fr.elemStore(st, addr.Addr, v.T)
			return
		}
		if !knownNonNil(addr.T) {
			fr.safe(st, "nil", x.Pos(), "store through nil pointer", not(eq(addr.T, "null")))
		}
		fr.frameCheck(st, addr.T, x.Pos())
		u.storePtr(st, addr, x.Val.Type(), v.T)
	case *ssa.Call:
		res := fr.call(st, x, x.Common(), x.Pos())
		if x.Type() != nil {
			if tup, ok := x.Type().(*types.Tuple); ok {
				if tup.Len() > 0 {
					fr.vals[x] = Val{Sort: "Tuple", Tuple: res, Typ: x.Type()}
				}
			} else if len(res) == 1 {
				fr.vals[x] = res[0]
			}
		}
	case *ssa.Extract:
		t := fr.val(x.Tuple)
		if x.Index < len(t.Tuple) {
			fr.vals[x] = t.Tuple[x.Index]
		} else {
			u.unsupported("%s: bad extract at %s", fr.oblFn, fr.pos(x.Pos()))
			fr.vals[x] = u.goVal(u.fresh("ex", u.sorts.sortOf(x.Type())), x.Type())
		}
	case *ssa.MakeInterface:
		v := fr.val(x.X)
		nv := fr.setVal(st, x, u.makeIface(st, v.T, x.X.Type()))
		nv.DynTyp = x.X.Type()
		if v.Sort == SRef {
			inner := v
			nv.Dyn = &inner
		}
		fr.vals[x] = nv
	case *ssa.ChangeInterface:
		fr.setVal(st, x, fr.val(x.X).T)
	case *ssa.ChangeType:
		v := fr.val(x.X)
		nv := v
		nv.Typ = x.Type()
		fr.vals[x] = nv
	case *ssa.Convert:
		fr.convert(st, x)
	case *ssa.TypeAssert:
		fr.typeAssert(st, x)
	case *ssa.Slice:
		fr.sliceOp(st, x)
	case *ssa.MakeSlice:
		et := x.Type().Underlying().(*types.Slice).Elem()
		ln, cp := fr.val(x.Len), fr.val(x.Cap)
		fr.safe(st, "makeslice", x.Pos(), "makeslice: len out of range", "(and (<= 0 "+ln.T+") (<= "+ln.T+" "+cp.T+"))")
		a := u.get(st, "alloc")
		base := u.def("mk", SInt, a)
		u.set(st, "alloc", "(+ "+a+" 1)")
		if isByteSlice(x.Type()) {
			// byte buffers are handled through the BS component (content string per backing array)
			s := u.fresh("buf", SStr)
			u.set(st, "BS", store(u.get(st, "BS"), base, s))
			fr.setVal(st, x, "(mkSlice "+base+" 0 "+ln.T+" "+cp.T+")")
			return
		}
		es := u.sorts.sortOf(et)
		zero := fmt.Sprintf("((as const (Array Int %s)) %s)", es, u.sorts.zero(et))
		u.set(st, u.elemComp(et), store(u.get(st, u.elemComp(et)), base, zero))
		u.assume(implies(st.guard, fmt.Sprintf("(= (basetype %s) %d)", base, u.P.tagOf(types.NewSlice(et)))))
		fr.setVal(st, x, "(mkSlice "+base+" 0 "+ln.T+" "+cp.T+")")
	case *ssa.MakeMap:
		mt := x.Type().Underlying().(*types.Map)
		vs := u.sorts.sortOf(mt.Elem())
		a := u.get(st, "alloc")
		r := u.def("map", SRef, "(obj "+a+")")
		u.assume("(= (rootid " + r + ") " + a + ")")
		u.set(st, "alloc", "(+ "+a+" 1)")
		u.set(st, "MD_"+vs, store(u.get(st, "MD_"+vs), r, "((as const (Array Str Bool)) false)"))
		fr.vals[x] = Val{T: r, Sort: SRef, Typ: x.Type()}
	case *ssa.MakeChan:
		a := u.get(st, "alloc")
		r := u.def("chan", SRef, "(obj "+a+")")
		u.assume("(= (rootid " + r + ") " + a + ")")
		u.set(st, "alloc", "(+ "+a+" 1)")
		if _, ok := u.P.CS.GhostMaps["chanClosed"]; ok {
			u.setCompSort("GM_chanClosed", "(Array Ref Bool)")
			u.set(st, "GM_chanClosed", store(u.get(st, "GM_chanClosed"), r, "false"))
		}
		if _, ok := u.P.CS.GhostMaps["chancap"]; ok {
			// ghost: the buffer size the channel was made with
			u.setCompSort("GM_chancap", "(Array Ref Int)")
			u.set(st, "GM_chancap", store(u.get(st, "GM_chancap"), r, fr.val(x.Size).T))
		}
		fr.vals[x] = Val{T: r, Sort: SRef, Typ: x.Type()}
	case *ssa.MakeClosure:
		a := u.get(st, "alloc")
		r := u.def("clo", SRef, "(obj "+a+")")
		u.assume("(= (rootid " + r + ") " + a + ")")
		u.set(st, "alloc", "(+ "+a+" 1)")
		var bs []Val
		for _, b := range x.Bindings {
			bs = append(bs, fr.val(b))
		}
		fr.root.closures[r] = closureInfo{x.Fn.(*ssa.Function), bs}
		fr.vals[x] = Val{T: r, Sort: SRef, Typ: x.Type()}
	case *ssa.Lookup:
		fr.lookup(st, x)
	case *ssa.MapUpdate:
		m, k, v := fr.val(x.Map), fr.val(x.Key), fr.val(x.Value)
		mt := x.Map.Type().Underlying().(*types.Map)
		vs := u.sorts.sortOf(mt.Elem())
		if u.sorts.sortOf(mt.Key()) != SStr {
			u.unsupported("%s: map with non-string key at %s", fr.oblFn, fr.pos(x.Pos()))
			return
		}
		fr.safe(st, "nilmap", x.Pos(), "assignment to entry in nil map", not(eq(m.T, "null")))
		if g, owner, ok := fr.guardedMap(x.Map); ok {
			fr.guardedAccess(st, g, owner, true, x.Pos(), "MapSet", []Val{k, v})
		}
		fr.frameMap(st, m.T, x.Pos())
		MD, MV := u.get(st, "MD_"+vs), u.get(st, "MV_"+vs)
		u.set(st, "MD_"+vs, store(MD, m.T, store(sel(MD, m.T), k.T, "true")))
		u.set(st, "MV_"+vs, store(MV, m.T, store(sel(MV, m.T), k.T, v.T)))
	case *ssa.Go:
		fr.goStmt(st, x)
	case *ssa.Defer:
		fr.defers = append(fr.defers, deferred{x, x.Block(), st.guard})
	case *ssa.RunDefers:
		for i := len(fr.defers) - 1; i >= 0; i-- {
			d := fr.defers[i]
			if d.block.Dominates(x.Block()) {
				fr.call(st, d.call, d.call.Common(), d.call.Pos())
				continue
			}
			// conditional defer: run on a copy under the defer's guard and merge
			s2 := st.clone()
			s2.guard = u.def("g", SBool, and(st.guard, d.guard))
			fr.call(s2, d.call, d.call.Common(), d.call.Pos())
			s1 := st.clone()
			s1.guard = u.def("g", SBool, and(st.guard, not(d.guard)))
			m := u.merge([]edgeState{{s1.guard, s1}, {s2.guard, s2}}, "defer")
			g := st.guard
			*st = *m
			st.guard = g
		}
	case *ssa.Send:
		ch, v := fr.val(x.Chan), fr.val(x.X)
		u.emitEvent(st, "ChanSend", []Val{ch})
		u.emitEvent(st, "ChanSend_"+chanElemName(u, x.X.Type()), []Val{ch, v})
	case *ssa.Select:
		fr.selectOp(st, x)
	default:
		u.unsupported("%s: instruction %T at %s", fr.oblFn, ins, fr.pos(ins.Pos()))
		if v, ok := ins.(ssa.Value); ok {
			fr.vals[v] = u.goVal(u.fresh("unk", u.sorts.sortOf(v.Type())), v.Type())
		}
	}
}

func (fr *Frame) unop(st *State, x *ssa.UnOp) {
	u := fr.u
	v := fr.val(x.X)
	switch x.Op {
	case token.MUL:
		if v.Addr != nil {
			fr.setVal(st, x, fr.elemLoad(st, v.Addr))
			return
		}
		if v.Sort != SRef {
			u.unsupported("%s: load through %s at %s", fr.oblFn, v.Sort, fr.pos(x.Pos()))
			fr.vals[x] = u.goVal(u.fresh("ld", u.sorts.sortOf(x.Type())), x.Type())
			return
		}
		if !knownNonNil(v.T) {
			fr.safe(st, "nil", x.Pos(), "load through nil pointer", not(eq(v.T, "null")))
		}
		val := fr.setVal(st, x, u.loadPtr(st, v, x.Type()))
		u.typeFacts(st, val.T, x.Type())
	case token.NOT:
		fr.setVal(st, x, not(v.T))
	case token.SUB:
		fr.setVal(st, x, "(- "+v.T+")")
	case token.ARROW:
		// channel receive: the value is unconstrained
		rt := x.Type()
		if x.CommaOk {
			tup := rt.(*types.Tuple)
			a := u.goVal(u.fresh("recv", u.sorts.sortOf(tup.At(0).Type())), tup.At(0).Type())
			u.typeFacts(st, a.T, a.Typ)
			ok := Val{T: u.fresh("recvok", SBool), Sort: SBool, Typ: tup.At(1).Type()}
			fr.vals[x] = Val{Sort: "Tuple", Tuple: []Val{a, ok}, Typ: rt}
		} else {
			a := u.goVal(u.fresh("recv", u.sorts.sortOf(rt)), rt)
			u.typeFacts(st, a.T, rt)
			fr.vals[x] = a
		}
		u.emitEvent(st, "ChanRecv", []Val{v})
	default:
		u.unsupported("%s: unary %s at %s", fr.oblFn, x.Op, fr.pos(x.Pos()))
		fr.vals[x] = u.goVal(u.fresh("un", u.sorts.sortOf(x.Type())), x.Type())
	}
}

func intBits(t types.Type) (bits int, unsigned bool) {
	b, ok := t.Underlying().(*types.Basic)
	if !ok {
		return 64, false
	}
	switch b.Kind() {
	case types.Int8:
		return 8, false
	case types.Int16:
		return 16, false
	case types.Int32:
		return 32, false
	case types.Int64, types.Int, types.UntypedInt:
		return 64, false
	case types.Uint8:
		return 8, true
	case types.Uint16:
		return 16, true
	case types.Uint32:
		return 32, true
	case types.Uint64, types.Uint, types.Uintptr:
		return 64, true
	}
	return 64, false
}

func pow2(n int) string {
	switch n {
	case 7:
		return "128"
	case 8:
		return "256"
	case 15:
		return "32768"
	case 16:
		return "65536"
	case 31:
		return "2147483648"
	case 32:
		return "4294967296"
	case 63:
		return "9223372036854775808"
	case 64:
		return "18446744073709551616"
	}
	return "1"
}

func (fr *Frame) binop(st *State, x *ssa.BinOp) {
	u := fr.u
	l, r := fr.val(x.X), fr.val(x.Y)
	s := u.sorts.sortOf(x.X.Type())
	var t Term
	switch x.Op {
	case token.EQL, token.NEQ:
		a, b := l.T, r.T
		if a == "null" && r.Sort != SRef {
			a = u.sorts.zero(x.Y.Type())
		}
		if b == "null" && l.Sort != SRef {
			b = u.sorts.zero(x.X.Type())
		}
		switch {
		case (l.Sort == SSlice || r.Sort == SSlice):
			o := a
			if isNilSliceTerm(a) {
				o = b
			}
			t = "(= (sbase " + o + ") 0)"
		case l.Sort == SIface && isNilIface(b):
			t = "(= (tag " + a + ") 0)"
		case l.Sort == SIface && isNilIface(a):
			t = "(= (tag " + b + ") 0)"
		default:
			t = eq(a, b)
		}
		if x.Op == token.NEQ {
			t = not(t)
		}
	case token.LSS, token.LEQ, token.GTR, token.GEQ:
		op := map[token.Token]string{token.LSS: "<", token.LEQ: "<=", token.GTR: ">", token.GEQ: ">="}[x.Op]
		if s == SStr {
			u.usesStrOps = true
			switch x.Op {
			case token.LSS:
				t = "(str.< " + l.T + " " + r.T + ")"
			case token.LEQ:
				t = "(str.<= " + l.T + " " + r.T + ")"
			case token.GTR:
				t = "(str.< " + r.T + " " + l.T + ")"
			default:
				t = "(str.<= " + r.T + " " + l.T + ")"
			}
		} else {
			t = "(" + op + " " + l.T + " " + r.T + ")"
		}
	case token.ADD:
		if s == SStr {
			// concatenation in the code: exact in string mode, an uninterpreted function otherwise (sound abstraction)
			t = "(STRCAT " + l.T + " " + r.T + ")"
		} else {
			t = "(+ " + l.T + " " + r.T + ")"
		}
	case token.SUB:
		t = "(- " + l.T + " " + r.T + ")"
		if _, uns := intBits(x.Type()); uns && s == SInt {
			bits, _ := intBits(x.Type())
			t = "(ite (< " + t + " 0) (+ " + t + " " + pow2(bits) + ") " + t + ")"
		}
	case token.MUL:
		t = "(* " + l.T + " " + r.T + ")"
	case token.QUO:
		if s == SReal {
			t = "(/ " + l.T + " " + r.T + ")"
		} else {
			fr.safe(st, "div", x.Pos(), "division by zero", not(eq(r.T, "0")))
			t = fmt.Sprintf("(ite (>= %s 0) (ite (> %s 0) (div %s %s) (- (div %s (- %s)))) (ite (> %s 0) (- (div (- %s) %s)) (div (- %s) (- %s))))", l.T, r.T, l.T, r.T, l.T, r.T, r.T, l.T, r.T, l.T, r.T)
		}
	case token.REM:
		fr.safe(st, "div", x.Pos(), "division by zero", not(eq(r.T, "0")))
		q := fmt.Sprintf("(ite (>= %s 0) (ite (> %s 0) (div %s %s) (- (div %s (- %s)))) (ite (> %s 0) (- (div (- %s) %s)) (div (- %s) (- %s))))", l.T, r.T, l.T, r.T, l.T, r.T, r.T, l.T, r.T, l.T, r.T)
		t = "(- " + l.T + " (* " + r.T + " " + q + "))"
	default:
		name := "bitop_" + smtIdent(x.Op.String())
		name = map[token.Token]string{token.AND: "bitop_and", token.OR: "bitop_or", token.XOR: "bitop_xor", token.SHL: "bitop_shl", token.SHR: "bitop_shr", token.AND_NOT: "bitop_andnot"}[x.Op]
		if name == "" {
			name = "bitop_other"
		}
		if !u.declared[name] {
			u.declared[name] = true
			u.emit("(declare-fun " + name + " (Int Int) Int)")
		}
		u.notes = append(u.notes, fmt.Sprintf("%s: bit operation %s at %s treated as uninterpreted", fr.oblFn, x.Op, fr.pos(x.Pos())))
		t = "(" + name + " " + l.T + " " + r.T + ")"
	}
	fr.setVal(st, x, t)
}

func isNilSliceTerm(t Term) bool { return t == "(mkSlice 0 0 0 0)" || t == "nilslice" }
func isNilIface(t Term) bool    { return t == "(mkIface 0 null)" }

func (fr *Frame) convert(st *State, x *ssa.Convert) {
	u := fr.u
	v := fr.val(x.X)
	from, to := x.X.Type(), x.Type()
	fs, ts := u.sorts.sortOf(from), u.sorts.sortOf(to)
	switch {
	case fs == SInt && ts == SInt:
		fb, fu := intBits(from)
		tb, tu := intBits(to)
		t := v.T
		switch {
		case fb <= tb && fu == tu, fb < tb && fu && !tu:
			// value preserved
		case !tu:
			// to signed of tb bits: wrap
			m := pow2(tb)
			h := pow2(tb - 1)
			t = "(let ((w (mod " + v.T + " " + m + "))) (ite (>= w " + h + ") (- w " + m + ") w))"
		default:
			t = "(mod " + v.T + " " + pow2(tb) + ")"
		}
		fr.setVal(st, x, t)
	case fs == SInt && ts == SReal:
		fr.setVal(st, x, "(to_real "+v.T+")")
	case fs == SReal && ts == SInt:
		// Go spec: converting a floating-point value that the integer type cannot represent yields an
		// implementation-dependent result (MinInt64 on amd64) - a safety obligation, like an index out of range.
		if tb, tu := intBits(to); tb > 0 {
			// the value is truncated towards zero first: (-2^(b-1) - 1, 2^(b-1)) for signed, (-1, 2^b) for unsigned types
			lo, hi := "(- (- "+pow2(tb-1)+".0) 1.0)", pow2(tb-1)+".0"
			if tu {
				lo, hi = "(- 1.0)", pow2(tb)+".0"
			}
			fr.safe(st, "f2i", x.Pos(), "floating-point value representable in the integer type it is converted to", "(and (> "+v.T+" "+lo+") (< "+v.T+" "+hi+"))")
		}
		fr.setVal(st, x, "(ite (>= "+v.T+" 0.0) (to_int "+v.T+") (- (to_int (- "+v.T+"))))")
		u.notes = append(u.notes, fmt.Sprintf("%s: float-to-int conversion at %s is exact truncation (A-FLOAT)", fr.oblFn, fr.pos(x.Pos())))
	case fs == SReal && ts == SReal:
		fr.setVal(st, x, v.T)
	case fs == SStr && ts == SStr:
		fr.setVal(st, x, v.T)
	case fs == SStr && isByteSlice(to):
		// []byte(s): a fresh buffer whose content is s (A-BYTES: byte slices are used whole; BS maps a buffer to its content)
		a := u.get(st, "alloc")
		nb := u.def("bb", SInt, a)
		u.set(st, "alloc", "(+ "+a+" 1)")
		u.set(st, "BS", store(u.get(st, "BS"), nb, v.T))
		l := u.strLen(v.T, true)
		fr.setVal(st, x, "(mkSlice "+nb+" 0 "+l+" "+l+")")
	case isByteSlice(from) && ts == SStr:
		fr.setVal(st, x, sel(u.get(st, "BS"), "(sbase "+v.T+")"))
	case fs == SStr && ts == SSlice && isRuneOrByteSlice(to):
		fr.vals[x] = u.goVal(u.fresh("runes", SSlice), to)
		u.typeFacts(st, fr.vals[x].T, to)
	default:
		u.unsupported("%s: conversion %s -> %s at %s", fr.oblFn, TypeKey(from), TypeKey(to), fr.pos(x.Pos()))
		fr.vals[x] = u.goVal(u.fresh("conv", ts), to)
	}
}

func isRuneOrByteSlice(t types.Type) bool {
	_, ok := t.Underlying().(*types.Slice)
	return ok
}

func (fr *Frame) typeAssert(st *State, x *ssa.TypeAssert) {
	u := fr.u
	v := fr.val(x.X)
	var ok Term
	var val Val
	if _, isIface := x.AssertedType.Underlying().(*types.Interface); isIface {
		ok = u.implements("(tag "+v.T+")", x.AssertedType)
		val = Val{T: v.T, Sort: SIface, Typ: x.AssertedType}
	} else {
		ok = eq("(tag "+v.T+")", intLit(int64(u.P.tagOf(x.AssertedType))))
		val = u.unbox(v.T, x.AssertedType)
	}
	okT := u.def("taok", SBool, ok)
	if x.CommaOk {
		zero := u.sorts.zero(x.AssertedType)
		vv := Val{T: u.def("ta", val.Sort, ite(okT, val.T, zero)), Sort: val.Sort, Typ: x.AssertedType}
		fr.vals[x] = Val{Sort: "Tuple", Typ: x.Type(), Tuple: []Val{vv, {T: okT, Sort: SBool, Typ: types.Typ[types.Bool]}}}
		return
	}
	fr.safe(st, "typeassert", x.Pos(), "type assertion to "+TypeKey(x.AssertedType), okT)
	fr.vals[x] = Val{T: u.def("ta", val.Sort, val.T), Sort: val.Sort, Typ: x.AssertedType}
}

func (fr *Frame) sliceOp(st *State, x *ssa.Slice) {
	u := fr.u
	v := fr.val(x.X)
	lo := Term("0")
	if x.Low != nil {
		lo = fr.val(x.Low).T
	}
	switch v.Sort {
	case SSlice:
		hi := "(slen " + v.T + ")"
		if x.High != nil {
			hi = fr.val(x.High).T
		}
		fr.safe(st, "slice", x.Pos(), "slice bounds in range", "(and (<= 0 "+lo+") (<= "+lo+" "+hi+") (<= "+hi+" (scap "+v.T+")))")
		if isByteSlice(x.X.Type()) {
			// byte buffers carry their content as one string (A-BYTES): a proper sub-slice is a buffer of unknown content
			a := u.get(st, "alloc")
			nb := u.def("bsub", SInt, a)
			u.set(st, "alloc", "(+ "+a+" 1)")
			BS := u.get(st, "BS")
			whole := "(and (= " + lo + " 0) (= " + hi + " (slen " + v.T + ")))"
			u.set(st, "BS", store(BS, nb, ite(whole, sel(BS, "(sbase "+v.T+")"), u.fresh("bsubc", SStr))))
			fr.setVal(st, x, fmt.Sprintf("(mkSlice %s 0 (- %s %s) (- (scap %s) %s))", nb, hi, lo, v.T, lo))
			return
		}
		fr.setVal(st, x, fmt.Sprintf("(mkSlice (sbase %s) (+ (soff %s) %s) (- %s %s) (- (scap %s) %s))", v.T, v.T, lo, hi, lo, v.T, lo))
	case "arrptr":
		arr := x.X.Type().Underlying().(*types.Pointer).Elem().Underlying().(*types.Array)
		hi := intLit(arr.Len())
		if x.High != nil {
			hi = fr.val(x.High).T
		}
		val := fr.setVal(st, x, fmt.Sprintf("(mkSlice %s %s (- %s %s) (- %d %s))", v.T, lo, hi, lo, arr.Len(), lo))
		if x.Low == nil && x.High == nil {
			val.ConstLen = int(arr.Len()) + 1
			fr.vals[x] = val
		}
	case SStr:
		u.usesStrOps = true
		hi := u.strLen(v.T, true)
		if x.High != nil {
			hi = fr.val(x.High).T
		}
		fr.safe(st, "slice", x.Pos(), "string slice bounds in range", "(and (<= 0 "+lo+") (<= "+lo+" "+hi+") (<= "+hi+" "+u.strLen(v.T, true)+"))")
		fr.setVal(st, x, "(str.substr "+v.T+" "+lo+" (- "+hi+" "+lo+"))")
	default:
		u.unsupported("%s: slice of %s at %s", fr.oblFn, v.Sort, fr.pos(x.Pos()))
		fr.vals[x] = u.goVal(u.fresh("sl", u.sorts.sortOf(x.Type())), x.Type())
	}
}

func (fr *Frame) lookup(st *State, x *ssa.Lookup) {
	u := fr.u
	m, k := fr.val(x.X), fr.val(x.Index)
	mt, ok := x.X.Type().Underlying().(*types.Map)
	if !ok || u.sorts.sortOf(mt.Key()) != SStr {
		u.unsupported("%s: lookup on %s at %s", fr.oblFn, TypeKey(x.X.Type()), fr.pos(x.Pos()))
		if x.CommaOk {
			tup := x.Type().(*types.Tuple)
			fr.vals[x] = Val{Sort: "Tuple", Typ: x.Type(), Tuple: []Val{u.goVal(u.fresh("lk", u.sorts.sortOf(tup.At(0).Type())), tup.At(0).Type()), {T: u.fresh("lkok", SBool), Sort: SBool}}}
		} else {
			fr.vals[x] = u.goVal(u.fresh("lk", u.sorts.sortOf(x.Type())), x.Type())
		}
		return
	}
	vs := u.sorts.sortOf(mt.Elem())
	has := u.def("has", SBool, and(not(eq(m.T, "null")), sel(sel(u.get(st, "MD_"+vs), m.T), k.T)))
	v := u.def("mv", vs, ite(has, sel(sel(u.get(st, "MV_"+vs), m.T), k.T), u.sorts.zero(mt.Elem())))
	u.typeFacts(st, v, mt.Elem())
	if g, owner, ok := fr.guardedMap(x.X); ok {
		fr.guardedAccess(st, g, owner, false, x.Pos(), "MapGet", []Val{k, {T: has, Sort: SBool, Typ: types.Typ[types.Bool]}, {T: v, Sort: vs, Typ: mt.Elem()}})
	}
	if x.CommaOk {
		fr.vals[x] = Val{Sort: "Tuple", Typ: x.Type(), Tuple: []Val{{T: v, Sort: vs, Typ: mt.Elem()}, {T: has, Sort: SBool, Typ: types.Typ[types.Bool]}}}
	} else {
		fr.vals[x] = Val{T: v, Sort: vs, Typ: mt.Elem()}
	}
}

func (fr *Frame) goStmt(st *State, x *ssa.Go) {
	u := fr.u
	c := x.Common()
	name := "dyn"
	if f := c.StaticCallee(); f != nil {
		name = f.Name()
	} else if c.IsInvoke() {
		name = c.Method.Name()
	}
	var args []Val
	if c.IsInvoke() {
		args = append(args, fr.val(c.Value))
	}
	for _, a := range c.Args {
		args = append(args, fr.val(a))
	}
	if mc, ok := c.Value.(*ssa.MakeClosure); ok {
		for _, b := range mc.Bindings {
			args = append(args, fr.val(b))
		}
	}
	var evArgs []Val
	for _, a := range args {
		if a.Sort == "elemaddr" || a.Sort == "arrptr" || a.Sort == "Tuple" {
			continue
		}
		evArgs = append(evArgs, a)
	}
	u.emitEvent(st, "Spawn_"+smtIdent(name), evArgs)
	u.emitEvent(st, "Spawn", nil)
}

func (fr *Frame) selectOp(st *State, x *ssa.Select) {
	u := fr.u
	// nondeterministic choice; received values unconstrained
	idx := u.fresh("selidx", SInt)
	lo := "0"
	if !x.Blocking {
		lo = "(- 1)"
	}
	u.assume(fmt.Sprintf("(and (<= %s %s) (< %s %d))", lo, idx, idx, len(x.States)))
	tup := x.Type().(*types.Tuple)
	vals := []Val{{T: idx, Sort: SInt, Typ: tup.At(0).Type()}, {T: u.fresh("selok", SBool), Sort: SBool, Typ: tup.At(1).Type()}}
	for i := 2; i < tup.Len(); i++ {
		t := tup.At(i).Type()
		v := u.goVal(u.fresh("selrecv", u.sorts.sortOf(t)), t)
		u.typeFacts(st, v.T, t)
		vals = append(vals, v)
	}
	fr.vals[x] = Val{Sort: "Tuple", Typ: x.Type(), Tuple: vals}
	u.emitEvent(st, "Select", nil)
	u.emitEvent(st, "Selected", []Val{{T: idx, Sort: SInt}})
}

// ---------------------------------------------------------------------------
// frame (assigns) checks

func (fr *Frame) frameCheck(st *State, addr Term, pos token.Pos) {
	u := fr.u
	root := fr.root
	if root.contract == nil || root.assignAll {
		return
	}
	// syntactic ancestors of the address
	var anc []Term
	cur := addr
	for {
		anc = append(anc, cur)
		if !strings.HasPrefix(cur, "(sub ") {
			break
		}
		inner := cur[5 : len(cur)-1]
		k := strings.LastIndex(inner, " ")
		cur = inner[:k]
	}
	rootT := anc[len(anc)-1]
	if strings.HasPrefix(rootT, "(obj (- ") {
		// global variable
	}
	var alts []Term
	for _, l := range root.assignLocs {
		for _, a := range anc {
			alts = append(alts, eq(a, l.addr))
		}
	}
	u.subFact(addr)
	alts = append(alts, "(>= (rootid "+rootT+") "+u.get(root.entry, "alloc")+")")
	if rootT != addr {
		// a location inside the nil object is no location at all (a callee's assigns clause evaluated on a nil receiver)
		alts = append(alts, "(= "+rootT+" null)")
	}
	u.oblige(fr.oblFn, "frame", "", fr.pos(pos), "store inside assigns clause", st.guard, or(alts...))
}

func (fr *Frame) frameElem(st *State, base Term, pos token.Pos) {
	u := fr.u
	root := fr.root
	if root.contract == nil || root.assignAll {
		return
	}
	alts := []Term{"(>= " + base + " " + u.get(root.entry, "alloc") + ")", "(= " + base + " 0)"}
	for _, b := range root.elemBases {
		alts = append(alts, eq(base, b))
	}
	if fr.elemRoot != "" {
		// the slice lives in a nil object: a callee's elems clause evaluated on a nil receiver names nothing
		alts = append(alts, "(= "+fr.elemRoot+" null)")
	}
	u.oblige(fr.oblFn, "frame.elem", "", fr.pos(pos), "element store inside elems clause", st.guard, or(alts...))
}

func (fr *Frame) frameMap(st *State, m Term, pos token.Pos) {
	u := fr.u
	root := fr.root
	if root.contract == nil || root.assignAll {
		return
	}
	alts := []Term{"(>= (rootid " + m + ") " + u.get(root.entry, "alloc") + ")"}
	for _, l := range root.assignLocs {
		alts = append(alts, eq(m, l.addr))
	}
	u.oblige(fr.oblFn, "frame.map", "", fr.pos(pos), "map update inside assigns clause", st.guard, or(alts...))
}

// chanElemName names the typed channel-send event: the type name for a named element type, its sort otherwise.
func chanElemName(u *Unit, t types.Type) string {
	if n, ok := t.(*types.Named); ok {
		return n.Obj().Name()
	}
	return smtIdent(u.sorts.sortOf(t))
}
