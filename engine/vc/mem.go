package vc

import (
	"fmt"
	"go/types"
	"strings"
)

func (u *Unit) mkSub(addr Term, i int) Term {
	t := fmt.Sprintf("(sub %s %d)", addr, i)
	return t
}

// subFact records rootid(sub(r,i)) = rootid(r) for an address used as a value.
func (u *Unit) subFact(t Term) {
	if !strings.HasPrefix(t, "(sub ") || u.subFacts[t] {
		return
	}
	u.subFacts[t] = true
	// find the root of the sub chain textually
	root := t
	for strings.HasPrefix(root, "(sub ") {
		inner := root[5 : len(root)-1]
		k := strings.LastIndex(inner, " ")
		root = inner[:k]
	}
	u.assume("(= (rootid " + t + ") (rootid " + root + "))")
	// intermediate struct addresses on the way are rooted in the same object
	mid := t
	for strings.HasPrefix(mid, "(sub ") {
		inner := mid[5 : len(mid)-1]
		mid = inner[:strings.LastIndex(inner, " ")]
		if strings.HasPrefix(mid, "(sub ") && !u.subFacts[mid] {
			u.subFacts[mid] = true
			u.assume("(= (rootid " + mid + ") (rootid " + root + "))")
		}
	}
}

// elemComp returns the element-array component for slices whose elements have Go type et (one array per element
// type: slices of different element types never share a backing array).
func (u *Unit) elemComp(et types.Type) string {
	es := u.sorts.sortOf(et)
	name := "E_" + smtIdent(TypeKey(et))
	if len(name) > 70 {
		name = name[:70]
	}
	u.setCompSort(name, "(Array Int (Array Int "+es+"))")
	u.sorts.elemSorts[es] = true
	if u.elemComps == nil {
		u.elemComps = map[string]bool{}
	}
	u.elemComps[name] = true
	return name
}

// fieldComp returns the heap component holding field i of struct type st (Burstall-Bornat: one array per field,
// indexed by the address of the struct - an object, or sub(parent, k) for a struct embedded by value).
func (u *Unit) fieldComp(st types.Type, i int) string {
	si := u.sorts.structOf(st)
	name := "F_" + strings.TrimPrefix(si.sort, "S_") + "_" + si.fields[i].name
	u.setCompSort(name, "(Array Ref "+si.fields[i].sort+")")
	return name
}

func isStructType(t types.Type) bool {
	_, ok := t.Underlying().(*types.Struct)
	return ok
}

// load reads a value of Go type t stored at addr. For a struct, addr is the struct's address and the value is
// assembled from its fields; for anything else addr is a plain pointer (not a field address) into the typed heap.
func (u *Unit) load(st *State, addr Term, t types.Type) Term {
	s := u.sorts.sortOf(t)
	if isStructType(t) {
		si := u.sorts.structOf(t)
		if si.opaque {
			return "unit"
		}
		if len(si.fields) == 0 {
			return si.ctor
		}
		var fs []Term
		for i, f := range si.fields {
			if isStructType(f.typ) {
				fs = append(fs, u.load(st, u.mkSub(addr, i), f.typ))
			} else if f.sort == SUnit {
				fs = append(fs, "unit")
			} else {
				fs = append(fs, sel(u.get(st, u.fieldComp(t, i)), addr))
			}
		}
		return app(si.ctor, fs...)
	}
	if s == SUnit {
		return "unit"
	}
	return sel(u.get(st, "H_"+s), addr)
}

// storeTo writes a value of Go type t at addr (see load).
func (u *Unit) storeTo(st *State, addr Term, t types.Type, v Term) {
	s := u.sorts.sortOf(t)
	if isStructType(t) {
		si := u.sorts.structOf(t)
		if si.opaque {
			return
		}
		for i, f := range si.fields {
			fv := "(" + f.sel + " " + v + ")"
			if isStructType(f.typ) {
				u.storeTo(st, u.mkSub(addr, i), f.typ, fv)
			} else if f.sort != SUnit {
				c := u.fieldComp(t, i)
				u.set(st, c, store(u.get(st, c), addr, fv))
			}
		}
		return
	}
	if s == SUnit {
		return
	}
	u.set(st, "H_"+s, store(u.get(st, "H_"+s), addr, v))
}

// havocAt stores fresh values at addr for type t.
func (u *Unit) havocAt(st *State, addr Term, t types.Type) {
	s := u.sorts.sortOf(t)
	if isStructType(t) {
		si := u.sorts.structOf(t)
		if si.opaque {
			return
		}
		for i, f := range si.fields {
			if isStructType(f.typ) {
				u.havocAt(st, u.mkSub(addr, i), f.typ)
			} else if f.sort != SUnit {
				v := u.fresh("hv", f.sort)
				c := u.fieldComp(t, i)
				u.set(st, c, store(u.get(st, c), addr, v))
				u.typeFacts(st, v, f.typ)
			}
		}
		return
	}
	if s == SUnit {
		return
	}
	v := u.fresh("hv", s)
	u.set(st, "H_"+s, store(u.get(st, "H_"+s), addr, v))
	u.typeFacts(st, v, t)
}

// loadPtr / storePtr / havocPtr access memory through a pointer value, which may be the address of a struct field.
func (u *Unit) loadPtr(st *State, p Val, t types.Type) Term {
	if p.FStruct != nil && u.sorts.structOf(p.FStruct).opaque {
		// a field of a struct from a package that is not modelled structurally: unknown value
		v := u.fresh("opq", u.sorts.sortOf(t))
		u.typeFacts(st, v, t)
		return v
	}
	if p.FStruct != nil && !isStructType(t) {
		if u.sorts.sortOf(t) == SUnit {
			return "unit"
		}
		return sel(u.get(st, u.fieldComp(p.FStruct, p.FIdx)), p.FBase)
	}
	return u.load(st, p.T, t)
}

func (u *Unit) storePtr(st *State, p Val, t types.Type, v Term) {
	if p.FStruct != nil && u.sorts.structOf(p.FStruct).opaque {
		return
	}
	if p.FStruct != nil && !isStructType(t) {
		if u.sorts.sortOf(t) == SUnit {
			return
		}
		c := u.fieldComp(p.FStruct, p.FIdx)
		u.set(st, c, store(u.get(st, c), p.FBase, v))
		return
	}
	u.storeTo(st, p.T, t, v)
}

func (u *Unit) havocPtr(st *State, p Val, t types.Type) {
	if p.FStruct != nil && u.sorts.structOf(p.FStruct).opaque {
		return
	}
	if p.FStruct != nil && !isStructType(t) {
		s := u.sorts.sortOf(t)
		if s == SUnit {
			return
		}
		v := u.fresh("hv", s)
		c := u.fieldComp(p.FStruct, p.FIdx)
		u.set(st, c, store(u.get(st, c), p.FBase, v))
		u.typeFacts(st, v, t)
		return
	}
	u.havocAt(st, p.T, t)
}

// typeFacts assumes the representation invariants of a freshly introduced value.
func (u *Unit) typeFacts(st *State, v Term, t types.Type) {
	if t == nil {
		return
	}
	switch tt := t.Underlying().(type) {
	case *types.Basic:
		if tt.Info()&types.IsUnsigned != 0 {
			u.assume("(>= " + v + " 0)")
		}
	case *types.Pointer, *types.Map, *types.Chan, *types.Signature:
		u.assume("(< (rootid " + v + ") " + u.get(st, "alloc") + ")")
		if p, ok := tt.(*types.Pointer); ok {
			if _, isStruct := p.Elem().Underlying().(*types.Struct); isStruct {
				// pointers of different struct types never alias
				u.assume(fmt.Sprintf("(=> (not (= %s null)) (= (dyntype %s) %d))", v, v, u.P.tagOf(t)))
			}
		}
	case *types.Interface:
		u.assume("(< (rootid (val " + v + ")) " + u.get(st, "alloc") + ")")
		u.assume("(>= (tag " + v + ") 0)")
		u.assume("(=> (= (tag " + v + ") 0) (= (val " + v + ") null))")
	case *types.Slice:
		// backing arrays of different slice types never alias
		u.assume(fmt.Sprintf("(=> (not (= (sbase %s) 0)) (= (basetype (sbase %s)) %d))", v, v, u.P.tagOf(types.NewSlice(tt.Elem()))))
		u.assume(fmt.Sprintf("(and (< (sbase %s) %s) (>= (sbase %s) 0) (>= (soff %s) 0) (>= (slen %s) 0) (<= (slen %s) (scap %s)) (=> (= (sbase %s) 0) (and (= (slen %s) 0) (= (scap %s) 0) (= (soff %s) 0))))",
			v, u.get(st, "alloc"), v, v, v, v, v, v, v, v, v))
	case *types.Struct:
		si := u.sorts.structOf(t)
		if si.opaque {
			return
		}
		for _, f := range si.fields {
			switch f.typ.Underlying().(type) {
			case *types.Basic:
				if b := f.typ.Underlying().(*types.Basic); b.Info()&types.IsUnsigned == 0 {
					continue
				}
			}
			u.typeFacts(st, "("+f.sel+" "+v+")", f.typ)
		}
	}
}

// box wraps a non-pointer value into an immutable cell.
func (u *Unit) boxFn(sort string) string {
	name := "box_" + smtIdent(sort)
	if !u.declared[name] {
		u.declared[name] = true
		u.emit(fmt.Sprintf("(declare-fun %s (Ref) %s)", name, sort))
	}
	return name
}

// makeIface builds an interface value from a concrete one.
func (u *Unit) makeIface(st *State, v Term, t types.Type) Term {
	tag := u.P.tagOf(t)
	s := u.sorts.sortOf(t)
	if s == SRef {
		return fmt.Sprintf("(mkIface %d %s)", tag, v)
	}
	a := u.get(st, "alloc")
	r := u.def("box", SRef, "(obj "+a+")")
	u.assume("(= (rootid " + r + ") " + a + ")")
	u.set(st, "alloc", "(+ "+a+" 1)")
	if s != SUnit {
		// under the path condition: two exclusive paths may box different values at the same allocation counter
		u.assume(implies(st.guard, "(= ("+u.boxFn(s)+" "+r+") "+v+")"))
	}
	return fmt.Sprintf("(mkIface %d %s)", tag, r)
}

// unbox reads the concrete value of dynamic type t out of an interface term.
func (u *Unit) unbox(iface Term, t types.Type) Val {
	s := u.sorts.sortOf(t)
	if s == SRef {
		return Val{T: "(val " + iface + ")", Typ: t, Sort: SRef}
	}
	if s == SUnit {
		return Val{T: "unit", Typ: t, Sort: SUnit}
	}
	return Val{T: "(" + u.boxFn(s) + " (val " + iface + "))", Typ: t, Sort: s}
}

// implements returns a term stating that the dynamic type tagged tg implements iface.
func (u *Unit) implements(tg Term, iface types.Type) Term {
	name := "impl_" + smtIdent(TypeKey(iface))
	if !u.implDone[name] {
		u.implDone[name] = true
		u.emit(fmt.Sprintf("(declare-fun %s (Int) Bool)", name))
		it := iface.Underlying().(*types.Interface)
		for k := 1; k < len(u.P.tagTyp); k++ {
			if types.Implements(u.P.tagTyp[k], it) {
				u.assume(fmt.Sprintf("(%s %d)", name, k))
			} else {
				u.assume(fmt.Sprintf("(not (%s %d))", name, k))
			}
		}
		u.assume(fmt.Sprintf("(not (%s 0))", name))
	}
	return "(" + name + " " + tg + ")"
}

func (u *Unit) litUsed(s string) Term {
	if u.litName == nil {
		u.litName = map[string]string{}
	}
	if n, ok := u.litName[s]; ok {
		return n
	}
	n := fmt.Sprintf("slit!%d", len(u.litOrder))
	u.litName[s] = n
	u.litOrder = append(u.litOrder, s)
	return n
}

// strLen returns the length term of a string; facts are asserted unless inside a quantifier.
func (u *Unit) strLen(t Term, facts bool) Term {
	l := "(STRLEN " + t + ")"
	u.usesLen = true
	if facts && !u.subFacts[l] {
		u.subFacts[l] = true
		u.lenFacts = append(u.lenFacts, len(u.cmds))
		u.emit("(assert (and (>= " + l + " 0) (= (= " + l + " 0) (= " + t + " EMPTYSTR))))")
	}
	return l
}

func (u *Unit) declareSpec(s *SpecFn) {
	if u.declared["spec:"+s.Name] {
		return
	}
	u.declared["spec:"+s.Name] = true
	u.specsUsed = append(u.specsUsed, s.Name)
	u.emit(fmt.Sprintf("(declare-fun %s (%s) %s)", s.Name, strings.Join(s.Params, " "), s.Result))
	// axioms mentioning this spec function are added when all their functions are declared
	u.addAxioms()
}

// addAxioms asserts every axiom whose spec functions have all been declared.
func (u *Unit) addAxioms() {
	for _, ax := range u.P.CS.Axioms {
		key := "axiom:" + ax.Label + ax.Src
		if u.declared[key] {
			continue
		}
		ok := true
		for _, f := range axiomFuncs(ax.Body, u.P.CS) {
			if !u.declared["spec:"+f] {
				ok = false
			}
		}
		if !ok {
			continue
		}
		u.declared[key] = true
		t, err := u.axiomTerm(ax)
		if err != nil {
			u.unsupported("axiom %s: %v", ax.Label, err)
			continue
		}
		u.trusted["axiom "+ax.Label+": "+ax.Src] = true
		u.assume(t)
	}
}

func (u *Unit) axiomTerm(ax *Axiom) (Term, error) {
	env := &Env{u: u, vars: map[string]Val{}, st: &State{guard: "true", comp: map[string]Term{}}, pkg: u.curPkg, inQuant: 1}
	var binds []string
	for _, v := range ax.Vars {
		q := u.freshName("a_" + v.Name)
		env.vars[v.Name] = specVal(q, v.Sort)
		binds = append(binds, "("+q+" "+v.Sort+")")
	}
	t, err := env.EvalBool(ax.Body)
	if err != nil {
		return "", err
	}
	if len(binds) > 0 {
		t = "(forall (" + strings.Join(binds, " ") + ") " + t + ")"
	}
	return t, nil
}

func axiomFuncs(e Expr, cs *Contracts) []string {
	var out []string
	var walk func(Expr)
	walk = func(e Expr) {
		switch n := e.(type) {
		case EUnary:
			walk(n.X)
		case EBinary:
			walk(n.L)
			walk(n.R)
		case ESel:
			walk(n.X)
		case EIndex:
			walk(n.X)
			walk(n.I)
		case ECall:
			if _, ok := cs.Specs[n.Fun]; ok {
				out = append(out, n.Fun)
			}
			if p, ok := cs.Preds[n.Fun]; ok {
				walk(p.Body)
			}
			for _, a := range n.Args {
				walk(a)
			}
		case EAssert:
			walk(n.X)
		case EPtrType:
			walk(n.X)
		}
	}
	walk(e)
	return out
}

// eventSorts returns the argument sorts of an event kind.
func (u *Unit) eventSorts(kind string) []string {
	if s, ok := u.eventArgSorts[kind]; ok {
		return s
	}
	if d, ok := u.P.CS.Events[kind]; ok {
		var s []string
		for i, a := range d.Args {
			if k := strings.Index(a.Sort, "."); k > 0 {
				// a Go type name (pkg.Type or *pkg.Type): the sort of that type
				name, ptr := a.Sort, false
				if strings.HasPrefix(name, "*") {
					name, ptr, k = name[1:], true, k-1
				}
				t := u.P.lookupType(nil, name[:k], name[k+1:])
				if t != nil && ptr {
					t = types.NewPointer(t)
				}
				if t != nil {
					if u.eventArgTyp == nil {
						u.eventArgTyp = map[string]types.Type{}
					}
					u.eventArgTyp[kind+"/"+fmt.Sprint(i)] = t
					s = append(s, u.sorts.sortOf(t))
					continue
				}
			}
			s = append(s, a.Sort)
		}
		u.eventArgSorts[kind] = s
		return s
	}
	return nil
}

// emitEvent appends an event to the ghost trace.
func (u *Unit) emitEvent(st *State, kind string, args []Val) {
	sorts := u.eventSorts(kind)
	if sorts == nil {
		for _, a := range args {
			sorts = append(sorts, a.Sort)
		}
		u.eventArgSorts[kind] = sorts
	}
	if u.eventArgTyp == nil {
		u.eventArgTyp = map[string]types.Type{}
	}
	cnt := u.get(st, "cnt_"+kind)
	for i, a := range args {
		if i >= len(sorts) {
			break
		}
		comp := fmt.Sprintf("arg_%s_%d", kind, i)
		u.setCompSort(comp, "(Array Int "+sorts[i]+")")
		if a.Typ != nil {
			u.eventArgTyp[kind+"/"+fmt.Sprint(i)] = a.Typ
		}
		u.set(st, comp, store(u.get(st, comp), cnt, a.T))
	}
	clk := u.get(st, "clock")
	u.set(st, "at_"+kind, store(u.get(st, "at_"+kind), cnt, clk))
	u.set(st, "cnt_"+kind, "(+ "+cnt+" 1)")
	u.set(st, "clock", "(+ "+clk+" 1)")
}

// havocEvents forgets how many events of the given kinds happened during a call (prefixes are kept). All new events
// of all kinds lie in one window of the ghost clock: [clock before the call, clock after it).
func (u *Unit) havocEvents(st *State, kinds ...string) {
	if len(kinds) == 0 {
		return
	}
	oclk := u.get(st, "clock")
	nclk := u.havocComp(st, "clock")
	for _, kind := range kinds {
		sorts := u.eventSorts(kind)
		old := u.get(st, "cnt_"+kind)
		u.havocComp(st, "cnt_"+kind)
		for i := range sorts {
			comp := fmt.Sprintf("arg_%s_%d", kind, i)
			u.setCompSort(comp, "(Array Int "+sorts[i]+")")
			oa := u.get(st, comp)
			na := u.havocComp(st, comp)
			q := u.freshName("q")
			u.assume(fmt.Sprintf("(forall ((%s Int)) (=> (and (<= 0 %s) (< %s %s)) (= (select %s %s) (select %s %s))))", q, q, q, old, na, q, oa, q))
		}
		oa := u.get(st, "at_"+kind)
		na := u.havocComp(st, "at_"+kind)
		q := u.freshName("q")
		u.assume(fmt.Sprintf("(forall ((%s Int)) (=> (and (<= 0 %s) (< %s %s)) (= (select %s %s) (select %s %s))))", q, q, q, old, na, q, oa, q))
		q2 := u.freshName("q")
		u.assume(fmt.Sprintf("(forall ((%s Int)) (=> (and (<= %s %s) (< %s %s)) (and (<= %s (select %s %s)) (< (select %s %s) %s))))", q2, old, q2, q2, u.get(st, "cnt_"+kind), oclk, na, q2, na, q2, nclk))
	}
}
