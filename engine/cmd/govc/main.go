// govc: contract-based deductive verification driver for /repo (see /verif/DESIGN.md).
package main

import (
	"encoding/json"
	"flag"
	"fmt"
	"os"
	"os/exec"
	"path/filepath"
	"regexp"
	"sort"
	"strconv"
	"strings"
	"sync"
	"time"

	"govc/vc"
)

type PropCfg struct {
	Pkg          string         `json:"pkg"`           // package dir of the replay harness ("." or "stanza")
	Funcs        []string       `json:"funcs"`         // functions under contract in this property's closure
	UseScan      []FrameScanCfg `json:"use_scan"`      // fields that only the listed functions may touch at all (guarded state)
	DepSkip      []string       `json:"dep_skip"`      // label prefixes of dependency clauses that are verified under their own property only
	Deps         []string       `json:"deps"`          // functions whose whole contract (all labels) is re-verified here because this property's proofs rely on it
	Lemmas       []string       `json:"lemmas"`        // lemma labels
	Replay       string         `json:"replay"`        // replay harness name (file replay/<name>_replay_test.go)
	Level        string         `json:"level"`         // proof | other
	Bounded      []string       `json:"bounded"`       // descriptions of bounded stand-ins (never counted as proved)
	Undecided    []string       `json:"undecided"`     // clauses of the property this family does not decide
	CallScan     []CallScanCfg  `json:"call_scan"`     // functions that only the listed functions (and helpers inlined into them) may call: their `at call` assertions cover every call
	FrameScan    []FrameScanCfg `json:"frame_scan"`    // fields that only the listed functions may store to
	AlwaysReplay bool           `json:"always_replay"` // the harness carries a bounded stand-in: run it on every check
}

type CallScanCfg struct {
	Callee  string   `json:"callee"`
	Allowed []string `json:"allowed"`
}

type FrameScanCfg struct {
	Struct  string   `json:"struct"`
	Field   string   `json:"field"`
	Allowed []string `json:"allowed"`
}

type Finding struct {
	Property   string `json:"property"`
	Obligation string `json:"obligation"`
	What       string `json:"what"`
	Witness    string `json:"witness"`
	HarnessTag string `json:"harness_tag"` // REPLAY-FAIL[<tag>] lines of the harness that reproduce this finding on the real code
}

type Findings struct {
	Open  []Finding `json:"open"`
	Fixed []string  `json:"fixed"`
}

type oblReport struct {
	Name    string  `json:"name"`
	Clause  string  `json:"clause,omitempty"`
	Pos     string  `json:"pos,omitempty"`
	Status  string  `json:"status"`
	Solver  string  `json:"solver,omitempty"`
	Seconds float64 `json:"seconds"`
	MaxCase float64 `json:"slowest_case_seconds,omitempty"`
}

var (
	verifDir = "/verif"
	repoDir  = "/repo"
)

func main() {
	if d := os.Getenv("GOVC_VERIF_DIR"); d != "" {
		verifDir = d // development: a scratch copy of /verif (contracts, props, replay harnesses)
	}
	if len(os.Args) < 2 {
		fmt.Println("usage: govc check|dump|replay ...")
		os.Exit(2)
	}
	switch os.Args[1] {
	case "check":
		os.Exit(cmdCheck(os.Args[2:]))
	case "dump":
		os.Exit(cmdDump(os.Args[2:]))
	case "closure":
		os.Exit(closure(os.Args[2:]))
	case "coverage":
		os.Exit(coverage(os.Args[2:]))
	case "replay":
		os.Exit(cmdReplay(os.Args[2:]))
	default:
		fmt.Println("unknown command", os.Args[1])
		os.Exit(2)
	}
}

func loadProgram(repo string) (*vc.Program, error) {
	p, err := vc.Load(repo)
	if err != nil {
		return nil, err
	}
	cs, err := vc.LoadAll(repo, verifDir)
	if err != nil {
		return nil, err
	}
	p.CS = cs
	return p, nil
}

func scratchDir() string {
	base := os.Getenv("VERIF_SCRATCH")
	if base == "" {
		base = "/var/tmp"
	}
	d, err := os.MkdirTemp(base, "govc-")
	if err != nil {
		d, _ = os.MkdirTemp("", "govc-")
	}
	return d
}

func cmdDump(args []string) int {
	fs := flag.NewFlagSet("dump", flag.ExitOnError)
	repo := fs.String("repo", repoDir, "repository")
	obl := fs.String("obl", "", "obligation whose query is written to stdout")
	all := fs.Bool("v", false, "list discharged obligations too")
	caseN := fs.Int("case", -1, "case of a split obligation")
	to := fs.Int("t", 10, "timeout seconds")
	fs.Parse(args)
	p, err := loadProgram(*repo)
	if err != nil {
		fmt.Println("ENGINE-ERROR load:", err)
		return 2
	}
	sc := scratchDir()
	defer os.RemoveAll(sc)
	for _, key := range fs.Args() {
		var u *vc.Unit
		if strings.HasPrefix(key, "lemma:") {
			var ax *vc.Axiom
			for _, l := range p.CS.Lemmas {
				if l.Label == key[6:] {
					ax = l
				}
			}
			if ax == nil {
				fmt.Println("no lemma", key)
				continue
			}
			u, err = p.VerifyLemma(ax)
		} else {
			u, err = p.VerifyFunc(key)
		}
		if err != nil {
			fmt.Println("ERR", err)
			continue
		}
		for _, s := range u.Unsupported {
			fmt.Println("UNSUPPORTED", s)
		}
		for _, s := range u.Unspecified() {
			fmt.Println("UNSPECIFIED", s)
		}
		if *obl != "" {
			for _, o := range u.Obls {
				if o.Name == *obl && (*caseN < 0 || o.Case == *caseN) {
					fmt.Print(o.Query(true))
				}
			}
			continue
		}
		rs := vc.Aggregate(vc.SolveAll(u.Obls, vc.SolverCfg{Timeout: time.Duration(*to) * time.Second, Scratch: sc, Models: true}, 16))
		for _, r := range rs {
			ok := (r.Status == "unsat" && !r.Obl.Cover) || (r.Status == "sat" && r.Obl.Cover)
			if ok && !*all {
				continue
			}
			fmt.Printf("%-8s %-8s %.2fs %s   // %s @%s\n", r.Status, r.Solver, r.Seconds, r.Obl.Name, r.Obl.Src, r.Obl.Pos)
			if r.Status == "error" {
				fmt.Println(r.Output)
			}
		}
		fmt.Printf("%s: %d obligations\n", key, len(u.Obls))
	}
	return 0
}

func belongs(label, prop string) bool {
	if label == "" {
		return true
	}
	for _, part := range strings.Split(label, ",") {
		if strings.HasPrefix(part, prop+".") {
			return true
		}
	}
	// labels of the form Cxx.* belong to other properties; anything else is infrastructure
	return !regexp.MustCompile(`^C\d\d`).MatchString(label)
}

func cmdCheck(args []string) int {
	fs := flag.NewFlagSet("check", flag.ExitOnError)
	repo := fs.String("repo", repoDir, "repository under verification")
	prop := fs.String("prop", "", "property id")
	tier := fs.String("tier", "quick", "quick|thorough")
	noEvidence := fs.Bool("no-evidence", false, "do not write evidence (self-tests on scratch copies)")
	noReplay := fs.Bool("no-replay", false, "skip replay on the real code")
	updateBaseline := fs.Bool("update-baseline", false, "rewrite the obligation baseline for this property")
	fs.Parse(args)
	if t := os.Getenv("VERIF_TIER"); t != "" && *tier == "" {
		*tier = t
	}
	seed := 1
	if s := os.Getenv("VERIF_SEED"); s != "" {
		if n, err := strconv.Atoi(s); err == nil {
			seed = n
		}
	}
	start := time.Now()
	var cfgs map[string]*PropCfg
	if err := readJSON(filepath.Join(verifDir, "props.json"), &cfgs); err != nil {
		fmt.Println("ENGINE-ERROR props.json:", err)
		return 2
	}
	cfg := cfgs[*prop]
	if cfg == nil {
		fmt.Println("ENGINE-ERROR unknown property", *prop)
		return 2
	}
	var kf Findings
	readJSON(filepath.Join(verifDir, "known_findings.json"), &kf)
	var baseline map[string][]string
	readJSON(filepath.Join(verifDir, "obligations.baseline.json"), &baseline)

	p, err := loadProgram(*repo)
	if err != nil {
		fmt.Println("ENGINE-ERROR load:", err)
		return 2
	}
	sc := scratchDir()
	defer os.RemoveAll(sc)

	// the replay harness (bounded contract-execution sweep on the real code) runs concurrently with the proof
	var rr replayResult
	replayDone := make(chan struct{})
	ranReplay := false
	if cfg.Replay != "" && !*noReplay {
		ranReplay = true
		go func() {
			rr = runReplay(*repo, cfg, *prop, seed, *tier, "")
			close(replayDone)
		}()
	} else {
		close(replayDone)
	}
	// generate
	type unitRes struct {
		key string
		u   *vc.Unit
		err error
	}
	isDep := map[string]bool{}
	for _, d := range cfg.Deps {
		isDep[d] = true
	}
	cfg.Funcs = append(cfg.Funcs, cfg.Deps...)
	units := make([]unitRes, len(cfg.Funcs)+len(cfg.Lemmas))
	var wg sync.WaitGroup
	for i, k := range cfg.Funcs {
		wg.Add(1)
		go func(i int, k string) {
			defer wg.Done()
			defer func() {
				if r := recover(); r != nil {
					units[i] = unitRes{key: k, err: fmt.Errorf("generator panic: %v", r)}
				}
			}()
			u, err := p.VerifyFunc(k)
			units[i] = unitRes{k, u, err}
		}(i, k)
	}
	for j, l := range cfg.Lemmas {
		i := len(cfg.Funcs) + j
		var ax *vc.Axiom
		for _, x := range p.CS.Lemmas {
			if x.Label == l {
				ax = x
			}
		}
		if ax == nil {
			units[i] = unitRes{key: "lemma:" + l, err: fmt.Errorf("lemma %s not found in contract files", l)}
			continue
		}
		wg.Add(1)
		go func(i int, ax *vc.Axiom) {
			defer wg.Done()
			u, err := p.VerifyLemma(ax)
			units[i] = unitRes{"lemma:" + ax.Label, u, err}
		}(i, ax)
	}
	wg.Wait()

	var obls []*vc.Obligation
	var genFailures []string
	trusted := map[string]bool{}
	repoCallees := map[string]bool{}
	unspec := map[string]bool{}
	notes := map[string]bool{}
	for _, ur := range units {
		if ur.err != nil {
			genFailures = append(genFailures, fmt.Sprintf("%s: %v", ur.key, ur.err))
			continue
		}
		for _, s := range ur.u.Unsupported {
			genFailures = append(genFailures, "unsupported: "+s)
		}
		for _, o := range ur.u.Obls {
			skip := false
			for _, pre := range cfg.DepSkip {
				for _, l := range strings.Split(o.Label, ",") {
					if strings.HasPrefix(strings.TrimSpace(l), pre) {
						skip = true
					}
				}
			}
			if belongs(o.Label, *prop) || (isDep[ur.key] && !skip) {
				obls = append(obls, o)
			}
		}
		for _, c := range ur.u.RepoCallees() {
			repoCallees[c] = true
		}
		for _, t := range ur.u.TrustedUsed() {
			trusted[t] = true
		}
		for _, t := range ur.u.Unspecified() {
			unspec[t] = true
		}
		for _, n := range ur.u.Notes() {
			notes[n] = true
		}
	}
	// every clause labelled with this property sits on a function this check verifies (a labelled clause on a
	// function that no check lists under that property would be proved nowhere)
	{
		listed := map[string]bool{}
		for _, f := range cfg.Funcs {
			listed[f] = true
		}
		var keys []string
		for k := range p.CS.Funcs {
			keys = append(keys, k)
		}
		sort.Strings(keys)
		for _, k := range keys {
			fc := p.CS.Funcs[k]
			if fc.Trusted || listed[k] {
				continue
			}
			if _, isFunc := p.Funcs[k]; !isFunc {
				continue // contract of an interface method, function-typed field or function type: assumed at calls
			}
			var cls []vc.Clause
			cls = append(cls, fc.Ensures...)
			for _, ca := range fc.CallAsserts {
				cls = append(cls, ca.Clause)
			}
			for _, lc := range fc.Loops {
				cls = append(cls, lc.Invariants...)
			}
			for _, c := range cls {
				if c.Label != "" && belongs(c.Label, *prop) {
					genFailures = append(genFailures, fmt.Sprintf("clause [%s] of %s is labelled with %s but %s is not among the functions this check verifies", c.Label, k, *prop, k))
					break
				}
			}
		}
	}
	// package-wide frame scans: stores to a protected field outside the functions under contract
	for _, fsc := range cfg.FrameScan {
		allowed := map[string]bool{}
		for _, a := range fsc.Allowed {
			allowed[a] = true
		}
		writers := p.FrameScan(fsc.Struct, fsc.Field)
		var bad []string
		for _, w := range writers {
			if !allowed[w] {
				bad = append(bad, w)
			}
		}
		o := vc.ScanObligation(fmt.Sprintf("framescan(%s.%s)", fsc.Struct, fsc.Field), fmt.Sprintf("only %v store to %s.%s (found: %v)", fsc.Allowed, fsc.Struct, fsc.Field, writers), len(bad) == 0, fmt.Sprintf("unlisted writers: %v", bad))
		obls = append(obls, o)
	}
	// guarded fields: no function outside the listed ones touches the field at all
	for _, fsc := range cfg.UseScan {
		allowed := map[string]bool{}
		for _, a := range fsc.Allowed {
			allowed[a] = true
		}
		users := p.UseScan(fsc.Struct, fsc.Field)
		bad := p.UnlistedUsers(users, allowed)
		o := vc.ScanObligation(fmt.Sprintf("usescan(%s.%s)", fsc.Struct, fsc.Field), fmt.Sprintf("only %v and helpers inlined into them use %s.%s (found: %v)", fsc.Allowed, fsc.Struct, fsc.Field, users), len(bad) == 0, fmt.Sprintf("unlisted users: %v", bad))
		obls = append(obls, o)
	}
	for _, csc := range cfg.CallScan {
		allowed := map[string]bool{}
		for _, a := range csc.Allowed {
			allowed[a] = true
		}
		users := p.CallScan(csc.Callee)
		bad := p.UnlistedUsers(users, allowed)
		o := vc.ScanObligation(fmt.Sprintf("callscan(%s)", csc.Callee), fmt.Sprintf("only %v and helpers inlined into them call %s (found: %v)", csc.Allowed, csc.Callee, users), len(bad) == 0, fmt.Sprintf("unlisted callers: %v", bad))
		obls = append(obls, o)
	}
	// global invariants rely on nobody storing to the globals they mention
	if len(p.CS.GlobalInvs) > 0 {
		stores := p.GlobalStores()
		var bad []string
		for _, gi := range p.CS.GlobalInvs {
			for g, fs := range stores {
				if strings.Contains(gi.Src, g) {
					bad = append(bad, fmt.Sprintf("%s stored by %v", g, fs))
				}
			}
		}
		sort.Strings(bad)
		obls = append(obls, vc.ScanObligation("globalscan", "package-level variables named in globalinv clauses are never stored to outside package initialisation", len(bad) == 0, strings.Join(bad, "; ")))
	}
	retried := 0
	timeout := 10 * time.Second
	if *tier == "thorough" {
		timeout = 60 * time.Second
	}
	raw := vc.SolveAll(obls, vc.SolverCfg{Timeout: timeout, Scratch: sc, Models: true, AllAgree: *tier == "thorough"}, 16)
	// An undecided case (unknown / time-out) is asked once more with three times the budget and all solvers from the
	// start: a slow or loaded machine must not turn a provable obligation into an alarm. Obligations of open known
	// findings are expected to fail and are not retried.
	if *tier != "thorough" {
		knownObl := map[string]bool{}
		for _, f := range kf.Open {
			if f.Property == *prop {
				knownObl[f.Obligation] = true
			}
		}
		var again []*vc.Obligation
		var idx []int
		for i, r := range raw {
			if !r.Obl.Cover && (r.Status == "unknown" || r.Status == "timeout") && !knownObl[r.Obl.Name] {
				again = append(again, r.Obl)
				idx = append(idx, i)
			}
		}
		// (more than a dozen undecided cases is not a flake: no retry, report them)
		if len(again) > 0 && len(again) <= 12 {
			rs := vc.SolveAll(again, vc.SolverCfg{Timeout: 3 * timeout, Scratch: sc, Models: true, Stagger: time.Millisecond}, 8)
			for j, r := range rs {
				r.Seconds += raw[idx[j]].Seconds
				raw[idx[j]] = r
			}
			retried = len(again)
		}
	}
	results := vc.Aggregate(raw)

	// classify
	var reports []oblReport
	nObl, nDis := 0, 0
	var failed []vc.Result
	var engineErrs []string
	var solverErrs []string
	solverTime := map[string]float64{}
	bySolver := map[string]int{}
	names := map[string]bool{}
	covers, coversOK := 0, 0
	var deadReturns []string
	failedIn := map[string]bool{}
	for _, r := range results {
		if !r.Obl.Cover && r.Status != "unsat" {
			failedIn[r.Obl.Func] = true
		}
	}
	for _, r := range results {
		names[r.Obl.Name] = true
		solverTime[r.Solver] += r.Seconds
		if r.Obl.Cover {
			covers++
			switch r.Status {
			case "sat":
				coversOK++
			case "unsat":
				if strings.Contains(r.Obl.Name, "#cover.ret") {
					// an unreachable return statement: dead code (e.g. an error path a callee's contract excludes), reported
					deadReturns = append(deadReturns, r.Obl.Name)
					coversOK++
					continue
				}
				if failedIn[r.Obl.Func] {
					// a failed obligation is assumed afterwards, which may cut off everything behind it
					continue
				}
				engineErrs = append(engineErrs, "vacuous: "+r.Obl.Name+" is unreachable (contradictory requires/invariant/assumed contract?)")
			}
			continue
		}
		nObl++
		rep := oblReport{Name: r.Obl.Name, Clause: r.Obl.Src, Pos: r.Obl.Pos, Status: r.Status, Solver: r.Solver, Seconds: round3(r.Seconds), MaxCase: round3(r.MaxCase)}
		if r.Status == "unsat" {
			nDis++
			bySolver[r.Solver]++
			rep.Status = "discharged"
		} else {
			if r.Status == "error" {
				// counts as an undischarged obligation; shown so that an encoding problem is visible
				solverErrs = append(solverErrs, "solver error on "+r.Obl.Name+": "+firstLines(r.Output, 3))
			}
			failed = append(failed, r)
		}
		reports = append(reports, rep)
	}
	// baseline: obligations that existed on the unchanged tree must still exist
	// (contract-level obligations only - postconditions, loop contracts, call-site assertions, lemmas, scans - by
	// clause, not by ordinal: the number of safety checks and callee preconditions follows the shape of the code,
	// and a harmless edit changes it)
	var missing []string
	if !*updateBaseline {
		have := map[string]bool{}
		for n := range names {
			if k := baselineKey(n); k != "" {
				have[k] = true
			}
		}
		seenMissing := map[string]bool{}
		for _, n := range baseline[*prop] {
			if k := baselineKey(n); k != "" && !have[k] && !seenMissing[k] {
				seenMissing[k] = true
				missing = append(missing, k)
			}
		}
	}
	if *updateBaseline {
		if baseline == nil {
			baseline = map[string][]string{}
		}
		var ns []string
		seenKey := map[string]bool{}
		for _, r := range results {
			if k := baselineKey(r.Obl.Name); k != "" && !seenKey[k] {
				seenKey[k] = true
				ns = append(ns, k)
			}
		}
		sort.Strings(ns)
		baseline[*prop] = ns
		writeJSON(filepath.Join(verifDir, "obligations.baseline.json"), baseline)
	}

	// known findings
	known := map[string]Finding{}
	for _, f := range kf.Open {
		if f.Property == *prop {
			known[f.Obligation] = f
		}
	}
	violations := 0
	var lines []string
	knownHit := map[string]bool{}
	replayDir := filepath.Join(verifDir, "replays", *prop)
	type fail struct {
		name, reason, output, model string
	}
	var fails []fail
	for _, r := range failed {
		if f, ok := known[r.Obl.Name]; ok {
			knownHit[f.Obligation] = true
			continue
		}
		fails = append(fails, fail{r.Obl.Name, fmt.Sprintf("%s (%s; clause: %s; at %s)", r.Status, r.Solver, r.Obl.Src, r.Obl.Pos), r.Output, r.Model})
	}
	for _, m := range missing {
		if _, ok := known[m]; ok {
			knownHit[m] = true
			continue
		}
		fails = append(fails, fail{m, "obligation of the unchanged tree no longer generated (contract does not bind / code path removed)", "", ""})
	}
	for _, g := range genFailures {
		fails = append(fails, fail{"generator", g, "", ""})
	}
	<-replayDone
	knownTags := map[string]bool{}
	for _, f := range kf.Open {
		if f.Property == *prop && f.HarnessTag != "" {
			knownTags[f.HarnessTag] = true
		}
	}
	witnessReplayed := map[string]int{}
	for tag, ls := range rr.tagged {
		if knownTags[tag] {
			witnessReplayed[tag] = len(ls)
		} else {
			for _, l := range ls {
				rr.fails = append(rr.fails, "["+tag+"] "+l)
			}
		}
	}
	for _, f := range kf.Open {
		if f.Property == *prop {
			if knownHit[f.Obligation] {
				w := ""
				if f.HarnessTag != "" {
					w = fmt.Sprintf(" (witness replayed on the real code: %d failing case(s) tagged %s)", witnessReplayed[f.HarnessTag], f.HarnessTag)
				}
				lines = append(lines, fmt.Sprintf("KNOWN-FINDING: property=%s %s [%s]%s", *prop, f.What, f.Obligation, w))
			} else {
				lines = append(lines, fmt.Sprintf("NOTE: known finding %s no longer fails (%s)", f.Obligation, f.What))
			}
		}
	}
	replayed := rr.cases
	if ranReplay {
		if rr.cases == 0 && len(rr.fails) == 0 {
			// the harness did not run (build failure?): on the unchanged tree this is an engine error
			fmt.Println("NOTE: replay harness produced no cases: " + firstLines(rr.output, 8))
			if len(fails) == 0 {
				engineErrs = append(engineErrs, "replay harness ran no cases: "+firstLines(rr.output, 8))
			}
		}
		if len(rr.fails) > 0 && len(fails) == 0 {
			fails = append(fails, fail{"bounded:" + cfg.Replay, "bounded contract-execution sweep on the real code found a failing input although every obligation was discharged: " + rr.fails[0], "", ""})
		}
	}
	if len(fails) > 0 {
		os.MkdirAll(replayDir, 0o755)
		for _, f := range fails {
			path := filepath.Join(replayDir, vc.SafeName(f.name)+".json")
			rec := map[string]interface{}{
				"property": *prop, "obligation": f.name, "reason": f.reason, "solver_output": firstLines(f.output, 60), "model": vc.ModelScalars(f.model),
				"replay_cmd": fmt.Sprintf("%s/bin/check replay %s", verifDir, path), "harness": cfg.Replay, "pkg": cfg.Pkg,
				"failing_inputs": rr.fails, "harness_output": firstLines(rr.output, 40),
			}
			writeJSON(path, rec)
			suffix := ""
			if len(rr.fails) == 0 {
				suffix = " no-failing-input-found"
			}
			lines = append(lines, fmt.Sprintf("FAILED-OBLIGATION %s: %s", f.name, f.reason))
			lines = append(lines, fmt.Sprintf("VIOLATION property=%s replay=%s%s", *prop, path, suffix))
			violations++
		}
	}
	for _, e := range engineErrs {
		fmt.Println("ENGINE-ERROR", e)
	}
	for _, e := range solverErrs {
		fmt.Println("ENGINE-NOTE", e)
	}
	{
		known := map[string]bool{}
		for _, n := range baseline["_dead:"+*prop] {
			known[n] = true
		}
		// A return path that is unreachable in the model satisfies its postconditions vacuously. The ones of the
		// unchanged tree are recorded (error branches a callee's contract excludes); more of them in a function than
		// recorded means the change added dead code - or contradicts an assumed contract, which would make everything
		// behind it provable: reported like a failed obligation (by count per function: return ordinals shift).
		perFn := func(names []string) map[string]int {
			m := map[string]int{}
			for _, n := range names {
				if i := strings.Index(n, "#cover.ret"); i > 0 {
					m[n[:i]]++
				}
			}
			return m
		}
		knownN, nowN := perFn(baseline["_dead:"+*prop]), perFn(deadReturns)
		if !*updateBaseline {
			var fns []string
			for fn := range nowN {
				fns = append(fns, fn)
			}
			sort.Strings(fns)
			for _, fn := range fns {
				if nowN[fn] > knownN[fn] {
					name := fn + "#cover.returns"
					path := filepath.Join(verifDir, "replays", *prop, vc.SafeName(name)+".json")
					os.MkdirAll(filepath.Dir(path), 0o755)
					writeJSON(path, map[string]interface{}{"property": *prop, "obligation": name, "reason": "return path unreachable in the model", "dead_return_paths": deadReturns})
					lines = append(lines, fmt.Sprintf("FAILED-OBLIGATION %s: %d return path(s) of the function are unreachable in the model, %d on the unchanged tree: their postconditions hold vacuously (dead code added, or the change contradicts an assumed contract)", name, nowN[fn], knownN[fn]))
					lines = append(lines, fmt.Sprintf("VIOLATION property=%s replay=%s no-failing-input-found", *prop, path))
					violations++
				}
			}
		}
		_ = known
		if *updateBaseline {
			sort.Strings(deadReturns)
			baseline["_dead:"+*prop] = deadReturns
			writeJSON(filepath.Join(verifDir, "obligations.baseline.json"), baseline)
		}
	}
	for _, l := range lines {
		fmt.Println(l)
	}
	wall := time.Since(start).Seconds()
	fmt.Printf("%s %s: %d obligations, %d discharged, %d failed (%d known), %d covers ok/%d, %d retried, %.1fs\n", *prop, *tier, nObl, nDis, len(failed), len(knownHit), coversOK, covers, retried, wall)

	if !*noEvidence {
		level := cfg.Level
		if level == "" {
			level = "proof"
		}
		if nDis != nObl || len(cfg.Bounded) > 0 {
			if level == "proof" && nDis != nObl {
				level = "other"
			}
		}
		var samples []oblReport
		for i, r := range reports {
			if i%maxInt(1, len(reports)/8) == 0 {
				samples = append(samples, r)
			}
		}
		var funcs []string
		funcs = append(funcs, cfg.Funcs...)
		var assumptions []string
		assumptions = append(assumptions, "A-ARITH: + - * on machine integers are mathematical (no wrap-around); conversions exact")
		assumptions = append(assumptions, "A-SEQ: one activation at a time; other goroutines only through declared volatile state")
		assumptions = append(assumptions, "A-EXPOSE: capacity slack of slices is not observable through aliases")
		assumptions = append(assumptions, "go/ssa (x/tools v0.29.0) translation of the source and govc's SSA-to-SMT encoding (DESIGN 2.13) are trusted")
		for _, u := range cfg.Undecided {
			assumptions = append(assumptions, "not decided by this check: "+u)
		}
		for _, n := range sortedKeys(notes) {
			assumptions = append(assumptions, "note: "+n)
		}
		// A method reached through an interface is called against the interface's contract; what its own contract
		// requires of the receiver's *state* beyond that is not checked at those calls (no behavioural-subtyping
		// obligation): list every such clause.
		for _, k := range funcs {
			fc := p.CS.Funcs[k]
			if fc == nil || !strings.HasPrefix(k, "(") || len(fc.Params) == 0 {
				continue
			}
			recvField := regexp.MustCompile(`(^|[^A-Za-z0-9_.])` + regexp.QuoteMeta(fc.Params[0]) + `\.[A-Za-z_]`)
			for _, r := range fc.Requires {
				if recvField.MatchString(r.Src) {
					assumptions = append(assumptions, fmt.Sprintf("receiver-state precondition of %s (`%s`) is assumed at calls through an interface: it is established by the library's own call protocol (constructor, Connect before use), which is not machine-checked", k, r.Src))
				}
			}
		}
		tb := sortedKeys(trusted)
		for _, t := range sortedKeys(unspec) {
			tb = append(tb, "UNSPECIFIED "+t)
		}
		// contracts of /repo code assumed at call sites: where is each one verified?
		var assumedRepo []string
		for _, c := range sortedKeys(repoCallees) {
			where := ""
			switch {
			case strings.HasPrefix(c, "field:") || strings.HasPrefix(c, "type:") || strings.HasPrefix(c, "param:"):
				where = "user callback contract (A-CB, assumed)"
			case p.Funcs[c] == nil:
				where = "interface contract (callers are verified against it; implementations in /repo carry the obligation)"
			default:
				for _, f := range cfg.Funcs {
					if f == c {
						where = "verified in this check"
					}
				}
				if where == "" {
					var ps []string
					for pid, pc := range cfgs {
						for _, f := range append(append([]string{}, pc.Funcs...), pc.Deps...) {
							if f == c {
								ps = append(ps, pid)
							}
						}
					}
					sort.Strings(ps)
					if len(ps) > 0 {
						where = "verified by the check(s) of " + strings.Join(ps, ", ")
					} else if fc := p.CS.Funcs[c]; fc != nil && fc.Bound {
						where = "ASSUMED: bounded stand-in only"
					} else {
						where = "ASSUMED: not verified by any registered check"
					}
				}
			}
			assumedRepo = append(assumedRepo, c+": "+where)
		}
		cov := map[string]interface{}{
			"repo_contracts_used_at_call_sites": assumedRepo,
			"obligations":                       nObl, "discharged": nDis,
			"checker_cmd":              fmt.Sprintf("%s/bin/check %s %s", verifDir, *prop, *tier),
			"trusted_base":             tb,
			"samples":                  samples,
			"functions_under_contract": funcs,
			"lemmas":                   cfg.Lemmas,
			"by_solver":                bySolver,
			"solver_seconds":           roundMap(solverTime),
			"vacuity_covers":           covers, "vacuity_covers_reachable": coversOK,
			"unreachable_return_paths": deadReturns,
			"failed_obligations":       failedNames(failed),
			"open_known_findings":      len(knownHit),
			"bounded_standins":         cfg.Bounded,
			"replay_cases_run":         replayed,
			"retried_undecided":        retried,
			"all_obligations":          reports,
			"explanation":              fmt.Sprintf("weakest-precondition style VCs generated by govc from go/ssa of %s's working tree for %d functions under contract; each obligation raced on z3 5.1.0, z3 4.8.12, cvc5 1.0.3 (first solver starts alone, the others join after 1.5 s; timeout %s; quick tier: up to 12 undecided cases are asked once more with three times the budget)", *repo, len(cfg.Funcs), timeout),
		}
		ev := map[string]interface{}{
			"property_id": *prop, "tier": *tier, "seed": seed, "level": level, "coverage": cov, "assumptions": assumptions,
			"wall_s": round3(wall), "violations": violations,
		}
		os.MkdirAll(filepath.Join(verifDir, "evidence"), 0o755)
		writeJSON(filepath.Join(verifDir, "evidence", *prop+".json"), ev)
	}
	if len(engineErrs) > 0 {
		return 2
	}
	if nObl == 0 {
		fmt.Println("ENGINE-ERROR no obligations generated (vacuous check)")
		return 2
	}
	if violations > 0 {
		return 1
	}
	return 0
}

func failedNames(rs []vc.Result) []string {
	var out []string
	for _, r := range rs {
		out = append(out, r.Obl.Name)
	}
	return out
}

type replayResult struct {
	fails  []string
	tagged map[string][]string // REPLAY-FAIL[tag]: ... lines, by tag
	output string
	cases  int
}

// runReplay injects the property's harness into the real package with -overlay and runs it.
func runReplay(repo string, cfg *PropCfg, prop string, seed int, tier string, model string) replayResult {
	var rr replayResult
	src := filepath.Join(verifDir, "replay", cfg.Replay+"_replay_test.go")
	if _, err := os.Stat(src); err != nil {
		rr.output = "no replay harness " + src
		return rr
	}
	sc := scratchDir()
	defer os.RemoveAll(sc)
	pkgDir := filepath.Join(repo, cfg.Pkg)
	ov := map[string]map[string]string{"Replace": {filepath.Join(pkgDir, "zz_verif_"+strings.ToLower(cfg.Replay)+"_replay_test.go"): src}}
	ovPath := filepath.Join(sc, "ov.json")
	writeJSON(ovPath, ov)
	pkgArg := "./" + cfg.Pkg
	if cfg.Pkg == "." || cfg.Pkg == "" {
		pkgArg = "."
	}
	cmd := exec.Command("go", "test", "-overlay", ovPath, "-vet=off", "-count=1", "-timeout", "120s", "-run", "TestVerifReplay_"+cfg.Replay+"$", "-v", pkgArg)
	cmd.Dir = repo
	cmd.Env = append(os.Environ(), "GOFLAGS=-mod=mod", "GOPROXY=off", "GOSUMDB=off", "GOTOOLCHAIN=local",
		fmt.Sprintf("VERIF_SEED=%d", seed), "VERIF_TIER="+tier, "VERIF_MODEL="+model)
	out, _ := cmd.CombinedOutput()
	rr.output = string(out)
	for _, l := range strings.Split(rr.output, "\n") {
		l = strings.TrimSpace(l)
		if i := strings.Index(l, "REPLAY-FAIL:"); i >= 0 {
			rr.fails = append(rr.fails, strings.TrimSpace(l[i+12:]))
		}
		if i := strings.Index(l, "REPLAY-FAIL["); i >= 0 {
			rest := l[i+12:]
			if j := strings.Index(rest, "]:"); j > 0 {
				if rr.tagged == nil {
					rr.tagged = map[string][]string{}
				}
				rr.tagged[rest[:j]] = append(rr.tagged[rest[:j]], strings.TrimSpace(rest[j+2:]))
			}
		}
		if i := strings.Index(l, "REPLAY-CASES:"); i >= 0 {
			n, _ := strconv.Atoi(strings.TrimSpace(l[i+13:]))
			rr.cases += n
		}
	}
	return rr
}

func cmdReplay(args []string) int {
	if len(args) < 1 {
		fmt.Println("usage: govc replay <replay.json>")
		return 2
	}
	var rec map[string]interface{}
	if err := readJSON(args[0], &rec); err != nil {
		fmt.Println("cannot read", args[0], err)
		return 2
	}
	cfg := &PropCfg{Replay: fmt.Sprint(rec["harness"]), Pkg: fmt.Sprint(rec["pkg"])}
	rr := runReplay(repoDir, cfg, fmt.Sprint(rec["property"]), 1, "quick", args[0])
	fmt.Print(rr.output)
	if len(rr.fails) > 0 {
		fmt.Printf("VIOLATION property=%v replay=%s\n", rec["property"], args[0])
		return 1
	}
	return 0
}

// ---------------------------------------------------------------------------

func readJSON(path string, v interface{}) error {
	data, err := os.ReadFile(path)
	if err != nil {
		return err
	}
	return json.Unmarshal(data, v)
}

func writeJSON(path string, v interface{}) {
	data, _ := json.MarshalIndent(v, "", " ")
	os.WriteFile(path, append(data, '\n'), 0o644)
}

func round3(f float64) float64 { return float64(int(f*1000+0.5)) / 1000 }

func roundMap(m map[string]float64) map[string]float64 {
	o := map[string]float64{}
	for k, v := range m {
		o[k] = round3(v)
	}
	return o
}

func sortedKeys(m map[string]bool) []string {
	var ks []string
	for k := range m {
		ks = append(ks, k)
	}
	sort.Strings(ks)
	return ks
}

func maxInt(a, b int) int {
	if a > b {
		return a
	}
	return b
}

func firstLines(s string, n int) string {
	ls := strings.Split(s, "\n")
	if len(ls) > n {
		ls = ls[:n]
	}
	return strings.Join(ls, "\n")
}

// baselineKey maps an obligation name to the contract clause it comes from ("" for obligations that follow the
// shape of the code rather than the contract: safety checks, callee preconditions, frame checks, return covers).
func baselineKey(name string) string {
	i := strings.Index(name, "#")
	if i < 0 {
		return name
	}
	kind := name[i+1:]
	if j := strings.LastIndex(kind, "@"); j >= 0 && !strings.Contains(kind[j:], "]") && !strings.Contains(kind[j:], ")") {
		kind = kind[:j]
	}
	switch {
	case strings.HasPrefix(kind, "post"), strings.HasPrefix(kind, "loop"), strings.HasPrefix(kind, "atcall"), strings.HasPrefix(kind, "lemma"),
		strings.HasPrefix(kind, "bind"), strings.HasPrefix(kind, "cover.pre"), strings.HasPrefix(kind, "cover.loop"):
		return name[:i+1] + kind
	}
	return ""
}

// coverage lists the /repo functions that no claimed check looks at: neither under contract in some props.json entry
// nor inlined into a function that is. A change inside such a function is invisible to every check.
func coverage(args []string) int {
	fs := flag.NewFlagSet("coverage", flag.ExitOnError)
	repo := fs.String("repo", repoDir, "repository")
	fs.Parse(args)
	p, err := loadProgram(*repo)
	if err != nil {
		fmt.Println("ENGINE-ERROR", err)
		return 2
	}
	var props map[string]PropCfg
	readJSON(filepath.Join(verifDir, "props.json"), &props)
	seen := map[string][]string{}
	done := map[string]bool{}
	for id, pc := range props {
		for _, f := range append(append([]string{}, pc.Funcs...), pc.Deps...) {
			seen[f] = append(seen[f], id)
			if done[f] {
				continue
			}
			done[f] = true
			u, err := p.VerifyFunc(f)
			if err != nil || u == nil {
				continue
			}
			for k := range u.Inlined {
				seen[k] = append(seen[k], "inlined into "+f)
			}
		}
	}
	var missing []string
	for _, k := range p.RepoFuncKeys() {
		if len(seen[k]) == 0 {
			missing = append(missing, k)
		}
	}
	sort.Strings(missing)
	fmt.Printf("%d /repo functions, %d looked at by some check, %d by none:\n", len(p.RepoFuncKeys()), len(p.RepoFuncKeys())-len(missing), len(missing))
	for _, m := range missing {
		fmt.Println("  ", m)
	}
	return 0
}

// closure prints, per property, the /repo functions whose contracts its proofs rely on at call sites, transitively,
// and that the check does not itself verify (candidates for "deps").
func closure(args []string) int {
	fs := flag.NewFlagSet("closure", flag.ExitOnError)
	repo := fs.String("repo", repoDir, "repository")
	fs.Parse(args)
	p, err := loadProgram(*repo)
	if err != nil {
		fmt.Println("ENGINE-ERROR", err)
		return 2
	}
	var props map[string]PropCfg
	readJSON(filepath.Join(verifDir, "props.json"), &props)
	callees := map[string][]string{}
	get := func(f string) []string {
		if c, ok := callees[f]; ok {
			return c
		}
		callees[f] = nil
		u, err := p.VerifyFunc(f)
		if err != nil || u == nil {
			return nil
		}
		var out []string
		for _, c := range u.RepoCallees() {
			if _, isFunc := p.Funcs[c]; isFunc {
				out = append(out, c)
			}
		}
		callees[f] = out
		return out
	}
	var ids []string
	for id := range props {
		ids = append(ids, id)
	}
	sort.Strings(ids)
	for _, id := range ids {
		pc := props[id]
		have := map[string]bool{}
		var work []string
		for _, f := range append(append([]string{}, pc.Funcs...), pc.Deps...) {
			have[f] = true
			work = append(work, f)
		}
		var missing []string
		for len(work) > 0 {
			f := work[0]
			work = work[1:]
			for _, c := range get(f) {
				if !have[c] {
					have[c] = true
					missing = append(missing, c)
					work = append(work, c)
				}
			}
		}
		sort.Strings(missing)
		fmt.Printf("%s: %d listed, %d more in the closure: %v\n", id, len(pc.Funcs)+len(pc.Deps), len(missing), missing)
	}
	return 0
}
