package main

import (
	"fmt"
	"os"
	"time"

	"govc/vc"
)

func main() {
	p, err := vc.Load("/repo")
	if err != nil {
		fmt.Println("load:", err)
		os.Exit(2)
	}
	cs, err := vc.LoadAll("/repo", "/verif")
	if err != nil {
		fmt.Println("contracts:", err)
		os.Exit(2)
	}
	p.CS = cs
	scratch, _ := os.MkdirTemp("/var/tmp", "govc")
	defer os.RemoveAll(scratch)
	for _, key := range os.Args[1:] {
		u, err := p.VerifyFunc(key)
		if err != nil {
			fmt.Println("ERR", err)
			continue
		}
		for _, s := range u.Unsupported {
			fmt.Println("UNSUPPORTED", s)
		}
		rs := vc.SolveAll(u.Obls, vc.SolverCfg{Timeout: 10 * time.Second, Scratch: scratch, Models: true}, 16)
		for _, r := range rs {
			fmt.Printf("%-8s %-8s %.2fs %s   // %s\n", r.Status, r.Solver, r.Seconds, r.Obl.Name, r.Obl.Src)
			if os.Getenv("DUMP") == r.Obl.Name {
				os.WriteFile("/tmp/dump.smt2", []byte(r.Obl.Query(true)), 0644)
			}
			if r.Status == "error" {
				fmt.Println(r.Output)
			}
		}
	}
}
