#!/usr/bin/env python3
"""Regenerates /verif/MANIFEST.json from props.json (claimed checks) and manifest_texts.json (per-property wording)."""
import json, subprocess
V = '/verif'
props = json.load(open(V + '/props.json'))
texts = json.load(open(V + '/manifest_texts.json'))
ids = [json.loads(l)['id'] for l in open(V + '/properties.jsonl')]
hooks = subprocess.run(['git', '-C', '/repo', 'log', '--format=%H %s'], capture_output=True, text=True).stdout.splitlines()
hook_commits = [l.split()[0] for l in hooks if l.split(' ', 1)[1].startswith('verif:')]
checks, na = [], []
for pid in ids:
    t = texts.get(pid, {})
    if pid in props:
        p = props[pid]
        checks.append({
            'property_id': pid,
            'quick_cmd': f'{V}/bin/check {pid} quick',
            'thorough_cmd': f'{V}/bin/check {pid} thorough',
            'evidence_file': f'{V}/evidence/{pid}.json',
            'replay_cmd_template': f'{V}/bin/check replay {{path}}',
            'engine': 'govc',
            'level_claimed': {'category': p.get('level', 'proof'), 'text': t.get('level_text', ''), 'design_ref': t.get('design_ref', 'DESIGN.md section 3')},
            'level_note': t.get('level_note', ''),
            'technique': t.get('technique', 'contract-based deductive verification: govc VC generation over go/ssa of the real code, obligations discharged by z3/cvc5'),
        })
    else:
        na.append({'property_id': pid, 'reason': t.get('na_reason', 'not claimed: its functions are not yet under contract in this build of the framework (no other technique is substituted)')})
m = {
    'version': 1,
    'setup_cmd': 'cd /verif/engine && GOFLAGS=-mod=mod GOPROXY=off GOSUMDB=off GOTOOLCHAIN=local go build -o /verif/bin/govc ./cmd/govc',
    'hooks': {
        'guard': 'verif',
        'enable': 'go build tag "verif" (-tags verif): compiles the comment-only contract files zz_contracts_verif.go; govc loads /repo with that tag',
        'baseline_off_cmd': 'cd /repo && GOFLAGS=-mod=mod GOPROXY=off GOSUMDB=off go test -vet=off -count=1 -timeout 25m ./...',
        'source_commits': hook_commits,
        'add_only': True,
    },
    'engines': [{'name': 'govc', 'path': '/verif/engine', 'serves_properties': sorted(props.keys()),
                 'kind_free_text': 'VC generator for Go written for this task (go/packages + go/ssa, x/tools v0.29.0): contracts as //@ comments in /repo/**/zz_contracts_verif.go, symbolic execution of SSA with loop cutting at invariants, modular calls, SMT-LIB obligations raced on z3 4.8.12 / z3 5.1.0 / cvc5 1.0.3; replay of failures on the real code by go test -overlay'}],
    'checks': checks,
    'not_applicable': na,
    'notes': 'See DESIGN.md. Checks exit 0 when every obligation generated from /repo\'s working tree is discharged, 1 with VIOLATION lines otherwise, 2 on engine errors. Known findings: /verif/known_findings.json.',
}
json.dump(m, open(V + '/MANIFEST.json', 'w'), indent=1)
print('checks:', [c['property_id'] for c in checks], 'n/a:', len(na))
